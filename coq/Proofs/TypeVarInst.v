(* C07: NESTED positions of a class's own type variables on instances Cls[X] (List[T], Dict[str, T],
   Optional[T], Tuple[T, T] ... to any depth; constrained / bound class TypeVars included).
   * acceptance of a position / of a whole call does not depend on the stored table (hence not on
     the history): the TypeVar checks read only the bindings of the TypeVars of the annotation,
     and those are reset to X on every access;
   * X a plain class: an accepted value has only instances of X at the matched positions (sound);
   * all matched values accepted for X, of one identical class per TypeVar: accepted (complete).
   What is NOT true (finding K5d, Props/C07.v): for X an annotation (Cls[List[int]]) only the FIRST value
   matched in a position is checked against X, the following ones against its runtime class.     *)
From Coq Require Import List Arith Bool ZArith Lia.
From PV Require Import Base.Exn Base.Values Base.Ann Model.CheckerCfg Model.Checker Model.GenericInstance
  Spec.Conforms Spec.TypeVarSpec Proofs.CheckerGood Proofs.CheckerRefine Proofs.CheckerSpec
  Proofs.TypeVarFrame Proofs.TypeVarTC Proofs.TypeVarCall Proofs.TypeVarHistory.
Import ListNotations.

(* ---- the TypeVars an annotation mentions ------------------------------------------------------------ *)
Fixpoint ann_tvars (a : ann) : list nat :=
  match a with
  | ATypeVar t => [tv_id t]
  | AUnion _ args => flat_map ann_tvars args
  | AGeneric _ _ args => flat_map ann_tvars args
  | ATupleVar _ e => ann_tvars e
  | ANewType s => ann_tvars s
  | _ => []
  end.

Lemma in_flat_map_intro {A B} (f : A -> list B) l x y : In x l -> In y (f x) -> In y (flat_map f l).
Proof. intros Hx Hy. apply in_flat_map. eauto. Qed.

Lemma matched_tvars : forall a b v p, In p (matched b a v) -> In (tv_id (mp_tv p)) (ann_tvars a).
Proof.
  induction a using ann_ind'; intros b v p Hp; try (now destruct Hp).
  - (* Union *)
    cbn [matched] in Hp. destruct (existsb _ args); [destruct Hp|]. cbn [ann_tvars].
    destruct (filter is_tv args) as [|x [|? ?]] eqn:Ef.
    + destruct (Nat.eqb (List.length (filter generic_tv_member args)) 1); [|destruct Hp].
      apply in_flat_map in Hp as [m [Hm Hp]]. destruct (generic_tv_member m); [|destruct Hp].
      rewrite Forall_forall in H. eapply in_flat_map_intro; [exact Hm|]. eapply H; eassumption.
    + assert (Hx : In x (filter is_tv args)) by (rewrite Ef; now left). apply filter_In in Hx as [Hx Hi].
      destruct x; try discriminate Hi. destruct Hp as [<-|[]]. cbn [mp_tv].
      eapply in_flat_map_intro; [exact Hx|]. now left.
    + destruct x; destruct Hp.
  - (* Generic *)
    rewrite Forall_forall in H. cbn [ann_tvars]. cbn [matched] in Hp.
    destruct (origin_kind o).
    + destruct args as [|a0 [|? ?]]; try (now destruct Hp).
      destruct (abc_instance o (class_of v)); [|destruct Hp]. destruct (iter_values v); [|destruct Hp].
      apply in_flat_map in Hp as [x [_ Hp]]. simpl. rewrite app_nil_r. eapply H; [now left|eassumption].
    + destruct args as [|ka [|va [|? ?]]]; try (now destruct Hp).
      destruct (abc_instance o (class_of v)); [|destruct Hp]. destruct (items_of v); [|destruct Hp].
      apply in_flat_map in Hp as [kv [_ Hp]]. simpl. rewrite app_nil_r. apply in_or_app.
      apply in_app_or in Hp as [Hp|Hp]; [left|right]; (eapply H; [|eassumption]); simpl; auto.
    + destruct args as [|ka [|va [|? ?]]]; try (now destruct Hp).
      destruct (pairs_of v); [|destruct Hp].
      apply in_flat_map in Hp as [kv [_ Hp]]. simpl. rewrite app_nil_r. apply in_or_app.
      apply in_app_or in Hp as [Hp|Hp]; [left|right]; (eapply H; [|eassumption]); simpl; auto.
    + destruct v; try (now destruct Hp). destruct (Nat.eqb (List.length l) (List.length args)); [|destruct Hp].
      revert l Hp. induction args as [|a0 args IHa]; intros l Hp; [destruct l; destruct Hp|].
      destruct l as [|v0 l]; [destruct Hp|]. simpl. apply in_or_app. apply in_app_or in Hp as [Hp|Hp].
      * left. eapply H; [now left|eassumption].
      * right. apply (IHa (fun x Hx => H x (or_intror Hx)) l Hp).
    + destruct args; destruct Hp.
    + destruct args; destruct Hp.
  - (* TupleVar *)
    cbn [matched] in Hp. destruct v; try (now destruct Hp).
    apply in_flat_map in Hp as [x [_ Hp]]. cbn [ann_tvars]. eapply IHa; eassumption.
  - (* TypeVar *)
    destruct Hp as [<-|[]]. now left.
Qed.

Section Coincide.
  Variable cfg : checker_cfg.
  Variable ctx : nat -> option cls.
  Let hook := is_inst0 cfg ctx.
  Notation TC := (typevar_check hook).
  Notation RUN := (run_tc hook).

  Definition upd (i : nat) (u : option cls) (tv : tvenv) : tvenv :=
    match u with Some c => tv_set tv i (BCls c) | None => tv end.

  (* one check on two tables that agree on the TypeVar: same result, same update *)
  Lemma tc_coincide t v tv1 tv2 :
    tv_lookup tv1 (tv_id t) = tv_lookup tv2 (tv_id t) ->
    (forall a', tv_lookup tv1 (tv_id t) = Some (BAnn a') -> inert a' = true) ->
    exists r u, TC t v tv1 = (r, upd (tv_id t) u tv1) /\ TC t v tv2 = (r, upd (tv_id t) u tv2).
  Proof.
    intros He Hi. destruct (tv_admits t v) eqn:Ea.
    - rewrite !(tc_admitted hook _ _ _ Ea), <- He.
      destruct (tv_lookup tv1 (tv_id t)) as [b|] eqn:El.
      + destruct (tv_contravariant t).
        * destruct b as [c|a'].
          -- destruct (subclass c (class_of v)); [exists (Ok true), (Some (class_of v))|exists (Raise PTypeVarMismatchC), None]; auto.
          -- exists (Raise TypeErrorC), None; auto.
        * destruct b as [c|a'].
          -- destruct (isinstance v c); [exists (Ok true), (Some (class_of v))|exists (Raise PTypeVarMismatchC), None]; auto.
          -- destruct (inert_uniform cfg ctx a' (Hi a' eq_refl) v) as [r Hr]. unfold hook, is_inst0. rewrite !Hr.
             destruct r as [[|]|e]; [exists (Ok true), (Some (class_of v))|exists (Raise PTypeVarMismatchC), None|exists (Raise e), None]; auto.
      + exists (Ok true), (Some (class_of v)); auto.
    - rewrite !(tc_guard hook _ _ _ Ea). exists (Ok false), None; auto.
  Qed.

  Definition ids_of (l : list mpos) : list nat := map (fun p => tv_id (mp_tv p)) l.
  Definition agree_on (ids : list nat) (tv1 tv2 : tvenv) : Prop := forall i, In i ids -> tv_lookup tv1 i = tv_lookup tv2 i.
  Definition inert_on (ids : list nat) (tv : tvenv) : Prop :=
    forall i a', In i ids -> tv_lookup tv i = Some (BAnn a') -> inert a' = true.

  Lemma upd_lookup i u tv j : tv_lookup (upd i u tv) j =
    match u with Some c => if Nat.eqb i j then Some (BCls c) else tv_lookup tv j | None => tv_lookup tv j end.
  Proof.
    destruct u as [c|]; [|reflexivity]. simpl. destruct (Nat.eqb i j) eqn:E.
    - apply Nat.eqb_eq in E. subst. apply tv_lookup_set_same.
    - apply Nat.eqb_neq in E. now apply tv_lookup_set_other.
  Qed.

  Lemma agree_upd ids i u tv1 tv2 : agree_on ids tv1 tv2 -> agree_on ids (upd i u tv1) (upd i u tv2).
  Proof. intros H j Hj. rewrite !upd_lookup. destruct u; [destruct (Nat.eqb i j)|]; auto. Qed.
  Lemma inert_upd ids i u tv : inert_on ids tv -> inert_on ids (upd i u tv).
  Proof.
    intros H j a' Hj Hl. rewrite upd_lookup in Hl. destruct u; [destruct (Nat.eqb i j); [discriminate|]|]; eapply H; eassumption.
  Qed.

  (* a whole trace: the result depends only on the bindings of the TypeVars of the trace *)
  Theorem run_coincide : forall l tv1 tv2, agree_on (ids_of l) tv1 tv2 -> inert_on (ids_of l) tv1 ->
    fst (RUN l tv1) = fst (RUN l tv2).
  Proof.
    induction l as [|p l IH]; intros tv1 tv2 Ha Hi; [reflexivity|].
    assert (He : tv_lookup tv1 (tv_id (mp_tv p)) = tv_lookup tv2 (tv_id (mp_tv p))) by (apply Ha; now left).
    destruct (tc_coincide (mp_tv p) (mp_val p) tv1 tv2 He (fun a' H => Hi _ a' (or_introl eq_refl) H)) as [r [u [H1 H2]]].
    cbn [run_tc]. unfold tc_pos. rewrite H1, H2.
    assert (Hrest : agree_on (ids_of l) (upd (tv_id (mp_tv p)) u tv1) (upd (tv_id (mp_tv p)) u tv2)
                    /\ inert_on (ids_of l) (upd (tv_id (mp_tv p)) u tv1)).
    { split; [apply agree_upd|apply inert_upd]; intros j; intros; [apply Ha|eapply Hi]; try eassumption; now right. }
    destruct Hrest as [Ha' Hi'].
    destruct (mp_union p); destruct r as [[|]|e]; simpl; try reflexivity; try (now apply IH).
    all: destruct (is_pedantic e); reflexivity.
  Qed.

  Lemma tc_ok_env t v tv tv1 : TC t v tv = (Ok true, tv1) ->
    (forall a', tv_lookup tv (tv_id t) = Some (BAnn a') -> inert a' = true) ->
    tv1 = tv_set tv (tv_id t) (BCls (class_of v)) /\ tv_admits t v = true.
  Proof.
    intros H Hi. destruct (tv_admits t v) eqn:Ea; [|rewrite (tc_guard hook _ _ _ Ea) in H; discriminate].
    split; [|reflexivity]. rewrite (tc_admitted hook _ _ _ Ea) in H.
    destruct (tv_lookup tv (tv_id t)) as [b|] eqn:El; [|now inversion H].
    destruct (tv_contravariant t).
    - destruct b as [c|a']; [destruct (subclass c (class_of v)); now inversion H|discriminate].
    - destruct b as [c|a']; [destruct (isinstance v c); now inversion H|].
      destruct (inert_uniform cfg ctx a' (Hi a' eq_refl) v) as [r Hr]. unfold hook, is_inst0 in H. rewrite Hr in H.
      destruct r as [[|]|e]; now inversion H.
  Qed.

  Lemma tc_ok_cov_cls t v tv tv1 c' : TC t v tv = (Ok true, tv1) -> tv_lookup tv (tv_id t) = Some (BCls c') ->
    tv_contravariant t = false -> subclass (class_of v) c' = true.
  Proof.
    intros H Hl Hc. destruct (tv_admits t v) eqn:Ea; [|rewrite (tc_guard hook _ _ _ Ea) in H; discriminate].
    rewrite (tc_admitted hook _ _ _ Ea), Hl, Hc in H. unfold isinstance in H.
    destruct (subclass (class_of v) c'); [reflexivity|discriminate].
  Qed.

  (* ---- X a plain class: everything an accepted trace matched against T is an instance of X ------------ *)
  Theorem run_ok_instances i c : forall l tv tv',
    RUN l tv = (Ok true, tv') -> inert_on (ids_of l) tv ->
    (exists c', tv_lookup tv i = Some (BCls c') /\ subclass c' c = true) ->
    (forall p, In p l -> tv_id (mp_tv p) = i -> tv_contravariant (mp_tv p) = false) ->
    forall p, In p l -> tv_id (mp_tv p) = i -> isinstance (mp_val p) c = true.
  Proof.
    induction l as [|q l IH]; intros tv tv' Hr Hi [c' [Hl Hc]] Hcov p Hp Hpi; [destruct Hp|].
    cbn [run_tc] in Hr. destruct (tc_pos hook q tv) as [[[|]|e] tv1] eqn:Eq; try discriminate.
    apply tc_pos_ok in Eq.
    destruct (tc_ok_env _ _ _ _ Eq (fun a' H => Hi _ a' (or_introl eq_refl) H)) as [-> Ha].
    assert (Hi1 : inert_on (ids_of l) (tv_set tv (tv_id (mp_tv q)) (BCls (class_of (mp_val q))))).
    { apply (inert_upd (ids_of l) (tv_id (mp_tv q)) (Some (class_of (mp_val q)))). intros j a' Hj. apply Hi. now right. }
    assert (Hstep : (exists c1, tv_lookup (tv_set tv (tv_id (mp_tv q)) (BCls (class_of (mp_val q)))) i = Some (BCls c1) /\ subclass c1 c = true)
                    /\ (tv_id (mp_tv q) = i -> isinstance (mp_val q) c = true)).
    { destruct (Nat.eq_dec (tv_id (mp_tv q)) i) as [Ei|Ei].
      - assert (Hinst : subclass (class_of (mp_val q)) c = true).
        { eapply subclass_trans; [|exact Hc]. apply (tc_ok_cov_cls _ _ _ _ c' Eq); [now rewrite Ei|]. apply Hcov; [now left|assumption]. }
        split; [|intros _; exact Hinst]. exists (class_of (mp_val q)). rewrite Ei, tv_lookup_set_same. auto.
      - split; [|intro H; now elim Ei]. exists c'. rewrite tv_lookup_set_other by assumption. auto. }
    destruct Hstep as [Hnext Hq].
    destruct Hp as [<-|Hp]; [now apply Hq|].
    eapply (IH _ tv' Hr Hi1 Hnext); [intros r Hr' Hri; apply Hcov; [now right|assumption]|assumption|assumption].
  Qed.

  (* ---- all values accepted for X and of one identical class per TypeVar: the trace is accepted ----------- *)
  Definition binding_accepts (tv : tvenv) (p : mpos) : Prop :=
    match tv_lookup tv (tv_id (mp_tv p)) with
    | None => True
    | Some (BCls c) => isinstance (mp_val p) c = true
    | Some (BAnn a') => inert a' = true /\ fst (is_inst0 cfg ctx a' (mp_val p) []) = Ok true
    end.

  Theorem run_complete (P : nat -> cls) : forall l tv,
    (forall p, In p l -> tv_admits (mp_tv p) (mp_val p) = true /\ tv_contravariant (mp_tv p) = false
                         /\ class_of (mp_val p) = P (tv_id (mp_tv p)) /\ binding_accepts tv p) ->
    exists tv', RUN l tv = (Ok true, tv').
  Proof.
    induction l as [|q l IH]; intros tv H; [simpl; eauto|].
    destruct (H q (or_introl eq_refl)) as [Ha [Hc [Hcl Hb]]].
    assert (Hs : TC (mp_tv q) (mp_val q) tv = (Ok true, tv_set tv (tv_id (mp_tv q)) (BCls (class_of (mp_val q))))).
    { rewrite (tc_admitted hook _ _ _ Ha), Hc. unfold binding_accepts in Hb.
      destruct (tv_lookup tv (tv_id (mp_tv q))) as [[c|a']|]; [now rewrite Hb| |reflexivity].
      destruct Hb as [Hin He]. destruct (inert_uniform cfg ctx a' Hin (mp_val q)) as [r Hr].
      unfold hook, is_inst0 in *. rewrite Hr in *. simpl in He. now subst r. }
    cbn [run_tc]. unfold tc_pos. rewrite Hs.
    replace (if mp_union q then union_conv (Ok true, tv_set tv (tv_id (mp_tv q)) (BCls (class_of (mp_val q))))
             else (Ok true, tv_set tv (tv_id (mp_tv q)) (BCls (class_of (mp_val q)))))
      with (Ok true, tv_set tv (tv_id (mp_tv q)) (BCls (class_of (mp_val q)))) by (destruct (mp_union q); reflexivity).
    apply IH. intros p Hp. destruct (H p (or_intror Hp)) as [Ha' [Hc' [Hcl' Hb']]]. repeat split; try assumption.
    unfold binding_accepts in *.
    destruct (Nat.eq_dec (tv_id (mp_tv q)) (tv_id (mp_tv p))) as [E|E].
    - rewrite <- E, tv_lookup_set_same. unfold isinstance. rewrite Hcl', <- E, <- Hcl. apply subclass_refl.
    - now rewrite tv_lookup_set_other.
  Qed.
End Coincide.

(* ---- positions, calls and histories on an instance Cls[xs] --------------------------------------------- *)
Section InstNested.
  Variable cfg : checker_cfg.
  Hypothesis good : good_facts cfg.
  Hypothesis Hub : un_bound_uses_result cfg = true.
  Variable ctx : nat -> option cls.
  Let hook := is_inst0 cfg ctx.
  Notation AM := (assert_matches cfg ctx hook).
  Notation RUN := (run_tc hook).
  Notation R ids xs := (refresh_of (KGeneric ids) (Some xs)).

  (* the positions covered: the vocabulary tv_vocab (TypeVars bare or nested to any depth), every
     TypeVar a type parameter of the class *)
  Definition nested_ok (ids : list nat) (a : ann) : bool :=
    tv_vocab a && forallb (fun i => existsb (Nat.eqb i) ids) (ann_tvars a).

  Lemma bind_inert x a' : inert x = true -> bind_of x = BAnn a' -> inert a' = true.
  Proof. destruct x; simpl; intros Hi H; inversion H; subst; try reflexivity; assumption. Qed.

  Lemma refresh_lookup_id ids xs tb i x : well_formed_inst ids xs -> x_of ids xs i = Some x ->
    tv_lookup (R ids xs tb) i = Some (bind_of x).
  Proof.
    intros [Hnd [Hl Hi]] Hx. cbn [refresh_of generics_of].
    rewrite merge_lookup by (now rewrite zip_bind_keys). now rewrite gen_lookup_zip, Hx.
  Qed.

  Lemma nested_ids ids a b v p : nested_ok ids a = true -> In p (matched b a v) -> In (tv_id (mp_tv p)) ids.
  Proof.
    intros Hn Hp. apply andb_true_iff in Hn as [_ Hn]. rewrite forallb_forall in Hn.
    specialize (Hn _ (matched_tvars a b v p Hp)). apply existsb_exists in Hn as [j [Hj Ej]].
    apply Nat.eqb_eq in Ej. now subst.
  Qed.

  Lemma refresh_agree ids xs l tb1 tb2 : well_formed_inst ids xs -> (forall i, In i l -> In i ids) ->
    agree_on l (R ids xs tb1) (R ids xs tb2) /\ inert_on l (R ids xs tb1).
  Proof.
    intros Hw Hin. pose proof Hw as [Hnd [Hl Hi]]. split.
    - intros i Hi'. destruct (x_of_some ids xs i Hl (Hin i Hi')) as [x Hx].
      now rewrite !(refresh_lookup_id ids xs _ i x Hw Hx).
    - intros i a' Hi' Hlk. destruct (x_of_some ids xs i Hl (Hin i Hi')) as [x Hx].
      rewrite (refresh_lookup_id ids xs _ i x Hw Hx) in Hlk. inversion Hlk as [Hb].
      apply (bind_inert x a'); [|assumption]. rewrite forallb_forall in Hi. apply Hi. eapply x_of_in; eassumption.
  Qed.

  Lemma lift_fst (r1 r2 : res) : fst r1 = fst r2 -> fst (lift cfg r1) = fst (lift cfg r2).
  Proof. destruct r1 as [o1 t1], r2 as [o2 t2]. simpl. intros ->. destruct o2 as [[|]|e]; reflexivity. Qed.

  Lemma run_indep ids xs a v tb1 tb2 : well_formed_inst ids xs -> nested_ok ids a = true ->
    fst (RUN (matched true a v) (R ids xs tb1)) = fst (RUN (matched true a v) (R ids xs tb2)).
  Proof.
    intros Hw Hn.
    destruct (refresh_agree ids xs (ids_of (matched true a v)) tb1 tb2 Hw) as [Ha Hi].
    { intros i Hi. apply in_map_iff in Hi as [p [<- Hp]]. eapply nested_ids; eassumption. }
    now apply run_coincide.
  Qed.

  (* one position: acceptance is independent of the stored table; so is the whole outcome when the
     TypeVar-free structure of the position accepts the value *)
  Theorem inst_position_indep ids xs a v tb1 tb2 : well_formed_inst ids xs -> nested_ok ids a = true ->
    (fst (AM a v (R ids xs tb1)) = Ok tt -> fst (AM a v (R ids xs tb2)) = Ok tt)
    /\ (pos_struct cfg ctx hook a v -> fst (AM a v (R ids xs tb1)) = fst (AM a v (R ids xs tb2))).
  Proof.
    intros Hw Hn. pose proof Hn as Hn'. apply andb_true_iff in Hn' as [Hv _].
    pose proof (run_indep ids xs a v tb1 tb2 Hw Hn) as He.
    assert (Hs : pos_struct cfg ctx hook a v -> fst (AM a v (R ids xs tb1)) = fst (AM a v (R ids xs tb2))).
    { intro Hst. rewrite !(position_run cfg good Hub ctx hook true a v _ Hv Hst). now apply lift_fst. }
    split; [|exact Hs].
    intro Hacc. destruct (AM a v (R ids xs tb1)) as [[[]|e] t1] eqn:E; [|discriminate Hacc].
    destruct (position_acc cfg good Hub ctx hook true a v _ t1 Hv E) as [Hst _].
    rewrite <- (Hs Hst). rewrite ?E. reflexivity.
  Qed.

  Definition nested_method (ids : list nat) (sg : msig) : bool := forallb (nested_ok ids) (sig_positions sg).

  Lemma seq_accept_indep ids xs : well_formed_inst ids xs -> forall ps vs tb1 tb2,
    forallb (nested_ok ids) ps = true ->
    (exists t1, check_seq cfg ctx (R ids xs) ps vs tb1 = (Ok tt, t1)) ->
    exists t2, check_seq cfg ctx (R ids xs) ps vs tb2 = (Ok tt, t2).
  Proof.
    intro Hw. induction ps as [|a ps IH]; intros [|v vs] tb1 tb2 Hn [t1 H]; try discriminate; [simpl; eauto|].
    simpl in Hn. apply andb_true_iff in Hn as [Hna Hnp]. cbn [check_seq] in *.
    change (amatch cfg ctx a v) with (AM a v) in *.
    revert H. destruct (AM a v (R ids xs tb1)) as [[[]|e] t1'] eqn:E1; intro H; [|discriminate H].
    pose proof (proj1 (inst_position_indep ids xs a v tb1 tb2 Hw Hna)) as Hacc. rewrite E1 in Hacc. specialize (Hacc eq_refl).
    destruct (AM a v (R ids xs tb2)) as [[[]|e] t2'] eqn:E2; [|discriminate Hacc].
    eapply IH; eauto.
  Qed.

  (* a whole call: accepted on one stored table iff accepted on any other *)
  Theorem inst_call_accept_indep ids xs sg args ret tb1 tb2 : well_formed_inst ids xs -> nested_method ids sg = true ->
    fst (run_call cfg ctx (R ids xs) sg args ret tb1) = Ok tt -> fst (run_call cfg ctx (R ids xs) sg args ret tb2) = Ok tt.
  Proof.
    intros Hw Hm Hacc. unfold nested_method, sig_positions in Hm. rewrite forallb_app in Hm.
    apply andb_true_iff in Hm as [Hp Hr]. simpl in Hr. rewrite andb_true_r in Hr.
    unfold run_call in *.
    revert Hacc. destruct (check_seq cfg ctx (R ids xs) (ms_params sg) args tb1) as [[[]|e] t1] eqn:E1; intro Hacc; [|discriminate Hacc].
    destruct (seq_accept_indep ids xs Hw _ _ tb1 tb2 Hp (ex_intro _ t1 E1)) as [t2 E2]. rewrite E2.
    change (amatch cfg ctx (ms_ret sg) ret) with (AM (ms_ret sg) ret) in *.
    exact (proj1 (inst_position_indep ids xs (ms_ret sg) ret t1 t2 Hw Hr) Hacc).
  Qed.

  (* ---- against X ------------------------------------------------------------------------------------------ *)
  (* X a plain class: an accepted position has only instances of X where T is matched *)
  Theorem inst_position_sound ids xs a v tb i c : well_formed_inst ids xs -> nested_ok ids a = true ->
    fst (AM a v (R ids xs tb)) = Ok tt -> x_of ids xs i = Some (ACls c) ->
    (forall p, In p (matched true a v) -> tv_id (mp_tv p) = i -> tv_contravariant (mp_tv p) = false) ->
    forall p, In p (matched true a v) -> tv_id (mp_tv p) = i -> isinstance (mp_val p) c = true.
  Proof.
    intros Hw Hn Hacc Hx Hcov. pose proof Hn as Hn'. apply andb_true_iff in Hn' as [Hv _].
    destruct (AM a v (R ids xs tb)) as [[[]|e] t1] eqn:E; [|discriminate Hacc].
    destruct (position_acc cfg good Hub ctx hook true a v _ t1 Hv E) as [_ Hr].
    destruct (refresh_agree ids xs (ids_of (matched true a v)) tb tb Hw) as [_ Hi].
    { intros j Hj. apply in_map_iff in Hj as [p [<- Hp]]. eapply nested_ids; eassumption. }
    apply (run_ok_instances cfg ctx i c _ _ t1 Hr Hi); [|assumption].
    exists c. split; [|apply subclass_refl]. exact (refresh_lookup_id ids xs tb i (ACls c) Hw Hx).
  Qed.

  (* what "the checker accepts w for X" means for the stored form of X *)
  Definition x_accepts (x : ann) (w : value) : Prop :=
    match bind_of x with
    | BCls c => isinstance w c = true
    | BAnn a' => fst (is_inst0 cfg ctx a' w []) = Ok true
    end.

  (* every matched value accepted for X, identical classes per TypeVar, constraints / bounds of T respected,
     structure accepted: the position is accepted, whatever the stored table *)
  Theorem inst_position_complete ids xs a v tb (P : nat -> cls) : well_formed_inst ids xs -> nested_ok ids a = true ->
    pos_struct cfg ctx hook a v ->
    (forall p, In p (matched true a v) ->
       tv_admits (mp_tv p) (mp_val p) = true /\ tv_contravariant (mp_tv p) = false /\ class_of (mp_val p) = P (tv_id (mp_tv p))
       /\ forall x, x_of ids xs (tv_id (mp_tv p)) = Some x -> x_accepts x (mp_val p)) ->
    fst (AM a v (R ids xs tb)) = Ok tt.
  Proof.
    intros Hw Hn Hst Hall. pose proof Hn as Hn'. apply andb_true_iff in Hn' as [Hv _]. pose proof Hw as [Hnd [Hl Hin]].
    rewrite (position_run cfg good Hub ctx hook true a v _ Hv Hst).
    destruct (run_complete cfg ctx P (matched true a v) (R ids xs tb)) as [tv' Hr]; [|unfold hook in *; now rewrite Hr].
    intros p Hp. destruct (Hall p Hp) as [Ha [Hc [Hcl Hx]]]. repeat split; try assumption.
    destruct (x_of_some ids xs (tv_id (mp_tv p)) Hl (nested_ids ids a true v p Hn Hp)) as [x Ex].
    unfold binding_accepts. rewrite (refresh_lookup_id ids xs tb _ x Hw Ex).
    specialize (Hx x Ex). unfold x_accepts in Hx. destruct (bind_of x) as [c|a'] eqn:Eb; [exact Hx|].
    split; [|exact Hx]. apply (bind_inert x a'); [|assumption].
    rewrite forallb_forall in Hin. apply Hin. eapply x_of_in; eassumption.
  Qed.
End InstNested.

(* ---- histories ---------------------------------------------------------------------------------------------- *)
Section InstNestedHist.
  Variable cfg : checker_cfg.
  Hypothesis good : good_facts cfg.
  Hypothesis Hub : un_bound_uses_result cfg = true.
  Variable ctx : nat -> option cls.
  Variable w : world.

  Lemma to_sres_ok r : to_sres r = ROk <-> r = Ok tt.
  Proof. destruct r as [[]|e]; simpl; split; intro H; try reflexivity; discriminate. Qed.

  (* whatever happened before and after the creation of Cls[xs](...): the call is accepted iff it is accepted on
     a fresh instance *)
  Theorem instance_nested_any_history h1 h2 slot c xs iargs cd ids m sg args ret :
    nth_error (w_classes w) c = Some cd -> cd_kind cd = KGeneric ids ->
    nth_error (cd_methods cd) m = Some sg ->
    well_formed_inst ids xs -> nested_method ids sg = true ->
    fst (run_step cfg ctx w (snd (run_from cfg ctx w [] h1)) (SNew slot c xs iargs)) = ROk ->
    forallb (fun s => negb (is_new_on slot s)) h2 = true ->
    (last (run_history cfg ctx w (h1 ++ SNew slot c xs iargs :: h2 ++ [SCall slot m args ret])) RAbsent = ROk
     <-> fst (run_call cfg ctx (refresh_of (KGeneric ids) (Some xs)) sg args ret []) = Ok tt).
  Proof.
    intros Hc Hk Hm Hw Hn Hnew Hh2.
    destruct (instance_last_step cfg ctx w h1 h2 slot c xs iargs cd ids m sg args ret Hc Hk Hm Hnew Hh2) as [tb ->].
    rewrite to_sres_ok. split; apply inst_call_accept_indep; assumption.
  Qed.
End InstNestedHist.
