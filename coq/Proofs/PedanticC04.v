(* C04: transparency of @pedantic for conforming keyword calls: under the guards below the decorated
   call IS the undecorated call (same outcome object, same journal: the body ran exactly once on the
   very same argument objects, nothing consumed).                                              *)
From Coq Require Import List Arith Bool String Lia.
From PV Require Import Base.Exn Base.Values Base.Ann Base.PyCall Model.CheckerCfg Model.Checker Model.PedanticCfg
  Model.Pedantic Spec.Conforms Spec.PedanticSpec Proofs.PedanticBase Proofs.PyCallFacts Proofs.PedanticC03.
Import ListNotations.
Open Scope list_scope.

(* ---------------- binding a call without positional arguments ---------------- *)
Definition slot_nil (all : list param) (kws : list pname) (p : param) : slot :=
  match p_kind p with
  | PosOnly => BOne (SDefault (p_name p))
  | PosOrKw | KwOnly => if mem (p_name p) kws then BOne (SKw (p_name p)) else BOne (SDefault (p_name p))
  | VarPos => BStar []
  | VarKw => BKws (filter (fun k => negb (mem k (kw_param_names all))) kws)
  end.

Lemma bind_go_nil : forall all kws ps b, bind_go all ps [] kws = Ok b ->
  b = map (fun p => (p_name p, slot_nil all kws p)) ps /\
  forall p, In p ps -> is_star p = false -> (takes_kw p = true -> mem (p_name p) kws = false) -> p_default p <> None.
Proof.
  intros all kws. induction ps as [|p ps IH]; intros b H.
  - simpl in H. inversion H; subst. split; [reflexivity|]. intros p [].
  - simpl in H.
    assert (Step : forall sl, sl = slot_nil all kws p ->
              (is_star p = false -> (takes_kw p = true -> mem (p_name p) kws = false) -> p_default p <> None) ->
              omap (cons (p_name p, sl)) (bind_go all ps [] kws) = Ok b ->
              b = map (fun p => (p_name p, slot_nil all kws p)) (p :: ps) /\
              forall q, In q (p :: ps) -> is_star q = false -> (takes_kw q = true -> mem (p_name q) kws = false) -> p_default q <> None).
    { intros sl Esl Hp E. destruct (bind_go all ps [] kws) as [b'|e] eqn:Eb; [|discriminate]. simpl in E. inversion E; subst.
      destruct (IH _ eq_refl) as [-> Hd]. split; [reflexivity|]. intros q [<-|Hq]; [assumption|now apply Hd]. }
    unfold by_default in H. unfold slot_nil in Step.
    assert (Star : p_kind p = VarPos \/ p_kind p = VarKw -> is_star p = false -> (takes_kw p = true -> mem (p_name p) kws = false) -> p_default p <> None).
    { intros Hk Hs. unfold is_star, is_varpos, is_varkw in Hs. destruct Hk as [Hk|Hk]; rewrite Hk in Hs; discriminate. }
    assert (Kw : takes_kw p = true -> mem (p_name p) kws = true -> is_star p = false -> (takes_kw p = true -> mem (p_name p) kws = false) -> p_default p <> None).
    { intros Ht Hm _ Hk. specialize (Hk Ht). congruence. }
    destruct (p_kind p) eqn:Ek.
    + destruct (p_default p) eqn:Ed; [|discriminate]. eapply Step; [reflexivity| |exact H]. intros _ _. discriminate.
    + destruct (mem (p_name p) kws) eqn:Em.
      * eapply Step; [reflexivity| |exact H]. apply Kw; [unfold takes_kw; now rewrite Ek|reflexivity].
      * destruct (p_default p) eqn:Ed; [|discriminate]. eapply Step; [reflexivity| |exact H]. intros _ _. discriminate.
    + eapply Step; [reflexivity| |exact H]. apply Star. now left.
    + destruct (mem (p_name p) kws) eqn:Em.
      * eapply Step; [reflexivity| |exact H]. apply Kw; [unfold takes_kw; now rewrite Ek|reflexivity].
      * destruct (p_default p) eqn:Ed; [|discriminate]. eapply Step; [reflexivity| |exact H]. intros _ _. discriminate.
    + eapply Step; [reflexivity| |exact H]. apply Star. now right.
Qed.

Lemma find_param_complete : forall ps p, distinct (map p_name ps) = true -> In p ps -> find_param (p_name p) ps = Some p.
Proof.
  induction ps as [|q ps IH]; simpl; intros p D Hin; [contradiction|].
  apply andb_true_iff in D as [D1 D2]. destruct Hin as [->|Hin].
  - now rewrite Nat.eqb_refl.
  - destruct (Nat.eqb (p_name q) (p_name p)) eqn:E; [|auto].
    exfalso. apply Nat.eqb_eq in E. apply negb_true_iff in D1. apply mem_false in D1. apply D1. rewrite E. now apply in_map.
Qed.

Lemma find_param_none : forall n ps, ~ In n (map p_name ps) -> find_param n ps = None.
Proof.
  induction ps as [|q ps IH]; simpl; intros H; [reflexivity|].
  destruct (Nat.eqb (p_name q) n) eqn:E; [apply Nat.eqb_eq in E; exfalso; apply H; now left|]. apply IH. intros Hin. apply H. now right.
Qed.

Lemma kw_get_of_In : forall k v kws, distinct (map fst kws) = true -> In (k, v) kws -> kw_get k kws = Some v.
Proof.
  induction kws as [|[j w] kws IH]; simpl; intros D Hin; [contradiction|].
  apply andb_true_iff in D as [D1 D2]. destruct Hin as [E|Hin].
  - inversion E; subst. now rewrite Nat.eqb_refl.
  - destruct (Nat.eqb k j) eqn:E; [|auto]. apply Nat.eqb_eq in E. subst j.
    exfalso. apply negb_true_iff in D1. apply mem_false in D1. apply D1. now apply (in_map fst) in Hin.
Qed.

Section C04.
  Variable pc : pedantic_cfg.
  Variable check : ann -> value -> tvenv -> outcome unit * tvenv.
  Variable consumes : ann -> value -> bool.
  Hypothesis good : pc_good pc = true.

  Let G := good_inv pc good.

  (* the checker accepts v under a, whatever TypeVar bindings it is given *)
  Definition accepts (a : ann) (v : value) : Prop := forall tv, fst (check a v tv) = Ok tt.
  (* ... and checking v against a does not exhaust it (K1: a one-shot iterator directly under typing.Iterable) *)
  Definition accepts_intact (a : ann) (v : value) : Prop := accepts a v /\ consumes a v = false.

  (* the receiver of the undecorated callable: exactly one object iff the callable has a receiver parameter,
     which is an ordinary (positional-or-keyword) first parameter *)
  Definition recv_shape (f : fn) (c : call) : Prop :=
    if f_recv f
    then (exists r rest x, full_params f = r :: rest /\ p_kind r = PosOrKw /\ c_twin_recv c = [x] /\ mem (p_name r) (kw_names c) = false)
    else c_twin_recv c = [].

  Record kw_guards (f : fn) (c : call) : Prop := {
    kg_kw : c_args c = [];
    kg_kws : distinct (kw_names c) = true;                      (* keyword arguments form a dict *)
    kg_sig : sig_base f = true;
    kg_walk : params_without_self f = declared f;              (* the receiver is recognised (K2: receiver name, classmethod decorated directly) *)
    kg_recv : recv_shape f c;
    kg_ann : forall p, In p (declared f) -> p_ann p <> None;
    kg_inst : is_instance_method f = true -> c_recv c <> [];     (* K10 *)
    kg_strip : c_recv c <> [] -> strips_first pc f = true;
    kg_one : List.length (c_recv c) <= 1;
    kg_probe : forall inst, instance_of f c = Ok inst -> clazz_probe f c inst = Ok tt;   (* K2: '@staticmethod' in the text *)
    (* the receiver the wrapper got is the one the first pass counts - or positional values play no role at all
       (otherwise the receiver is checked as the first positional value / against the annotation of *args) *)
    kg_count : List.length (c_recv c) <= (if is_instance_method f then 1 else 0)
               \/ (should_have_kwargs pc f = true /\ has_varpos (f_params f) = false);
    kg_same : bound_src f ++ call_pos pc f c = twin_pos c;       (* K7, K2: the undecorated callable gets the same receiver *)
  }.

  Section Call.
    Variable f : fn.
    Variable c : call.
    Variable b : binding.
    Hypothesis g : kw_guards f c.
    Hypothesis Hb : twin_binding f c = Ok b.
    Hypothesis Hsup : forall oa v, In (oa, v) (supplied_of f c b) -> exists a, oa = Some a /\ accepts_intact a v.

    Let Hsig := kg_sig f c g.

    Lemma sig_parts : True /\ one_star (f_params f) = true /\ distinct (map p_name (full_params f)) = true
      /\ forallb (fun p => negb (Nat.eqb (p_name p) self_name)) (declared f) = true.
    Proof.
      pose proof Hsig as H. unfold sig_base in H. apply andb_true_iff in H as [H _]. apply andb_true_iff in H as [H H1].
      apply andb_true_iff in H as [H H2]. repeat split; assumption.
    Qed.

    (* the binding of the declared parameters *)
    Lemma declared_binding : exists b0,
      bind_go (full_params f) (declared f) [] (kw_names c) = Ok b0 /\
      (forall x, In x b0 -> In x b) /\
      distinct (map p_name (declared f)) = true.
    Proof.
      destruct sig_parts as [_ [_ [Hd _]]].
      pose proof (kg_recv f c g) as Hr. unfold recv_shape in Hr. unfold twin_binding, py_bind in Hb.
      destruct (forallb (fun k => mem k (kw_param_names (full_params f)) || has_varkw (full_params f)) (kw_names c)); [|discriminate].
      unfold twin_pos, arg_srcs in Hb. rewrite (kg_kw f c g) in Hb. simpl in Hb. rewrite app_nil_r in Hb.
      unfold declared. destruct (f_recv f).
      - destruct Hr as [r [rest [x [Hfull [Hk [Htw Hm]]]]]]. rewrite Htw, Hfull in Hb. simpl in Hb. rewrite Hk, Hm in Hb.
        rewrite Hfull in *. simpl.
        destruct (bind_go (r :: rest) rest [] (kw_names c)) as [b0|e] eqn:E0; [|discriminate].
        simpl in Hb. inversion Hb; subst. exists b0. split; [reflexivity|]. split; [intros y Hy; now right|].
        simpl in Hd. now apply andb_true_iff in Hd as [_ Hd].
      - rewrite Hr in Hb. simpl in Hb. exists b. split; [assumption|]. split; [auto|assumption].
    Qed.

    Lemma supplied_in : forall p sl oa v, In p (declared f) ->
      In (p_name p, sl) b ->
      In (oa, v) (match sl with
                  | BOne (SKw k) => map (fun v => (p_ann p, v)) (opt_list (kw_get k (c_kwargs c)))
                  | BOne (SDefault _) => map (fun v => (p_ann p, v)) (opt_list (p_default p))
                  | BOne _ => []
                  | BStar l => flat_map (fun s => match s with
                                                  | SArg i => map (fun v => (p_ann p, v)) (opt_list (nth_error (c_args c) i))
                                                  | _ => []
                                                  end) l
                  | BKws ks => flat_map (fun k => map (fun v => (p_ann p, v)) (opt_list (kw_get k (c_kwargs c)))) ks
                  end) ->
      In (oa, v) (supplied_of f c b).
    Proof.
      intros p sl oa v Hp Hin Hv. destruct declared_binding as [b0 [_ [_ Hd]]].
      unfold supplied_of. apply in_flat_map. exists (p_name p, sl). split; [assumption|]. simpl.
      rewrite (find_param_complete _ _ Hd Hp). assumption.
    Qed.

    (* explicit keyword for a declared parameter *)
    Lemma kw_supplied : forall p v, In p (declared f) -> is_star p = false -> takes_keyword p = true ->
      kw_get (p_name p) (c_kwargs c) = Some v -> exists a, p_ann p = Some a /\ accepts_intact a v.
    Proof.
      intros p v Hp Hs Htk0 Hk. destruct declared_binding as [b0 [Hb0 [Hincl Hd]]].
      destruct (bind_go_nil _ _ _ _ Hb0) as [-> _].
      assert (Htk : takes_kw p = true).
      { unfold takes_keyword in Htk0. unfold takes_kw. unfold is_star, is_varpos, is_varkw in Hs. destruct (p_kind p); try discriminate; reflexivity. }
      assert (Hin : In (p_name p, BOne (SKw (p_name p))) b).
      { apply Hincl. apply in_map_iff. exists p. split; [|assumption]. f_equal. unfold slot_nil.
        unfold takes_kw in Htk. unfold kw_names. rewrite (kw_get_mem _ _ _ Hk). destruct (p_kind p); try discriminate; reflexivity. }
      destruct (Hsup (p_ann p) v) as [a [Ha Hacc]].
      { eapply supplied_in; [exact Hp|exact Hin|]. cbv beta iota. rewrite Hk. simpl. now left. }
      eauto.
    Qed.

    (* omitted but defaulted / required parameters are supplied *)
    Lemma default_supplied : forall p, In p (declared f) -> is_star p = false ->
      takes_keyword p = false \/ kw_get (p_name p) (c_kwargs c) = None ->
      exists a d, p_ann p = Some a /\ p_default p = Some d /\ accepts_intact a d.
    Proof.
      intros p Hp Hs Hk. destruct declared_binding as [b0 [Hb0 [Hincl Hd]]].
      destruct (bind_go_nil _ _ _ _ Hb0) as [-> Hfill].
      assert (Hm : takes_kw p = true -> mem (p_name p) (kw_names c) = false).
      { intros Htk. destruct Hk as [Hk|Hk]; [unfold takes_keyword in Hk; unfold takes_kw in Htk; destruct (p_kind p); discriminate|].
        destruct (mem (p_name p) (kw_names c)) eqn:E; [|reflexivity].
        destruct (kw_get_mem_some _ _ E) as [v Hv]. congruence. }
      destruct (p_default p) as [d|] eqn:Ed; [|exfalso; now apply (Hfill p Hp Hs Hm)].
      assert (Hin : In (p_name p, BOne (SDefault (p_name p))) b).
      { apply Hincl. apply in_map_iff. exists p. split; [|assumption]. f_equal. unfold slot_nil.
        unfold is_star, is_varpos, is_varkw in Hs. unfold takes_kw in Hm. destruct (p_kind p); try discriminate; try reflexivity;
          rewrite (Hm eq_refl); reflexivity. }
      destruct (Hsup (p_ann p) d) as [a [Ha Hacc]].
      { eapply supplied_in; [exact Hp|exact Hin|]. cbv beta iota. rewrite Ed. simpl. now left. }
      eauto.
    Qed.

    (* a keyword that no parameter takes, under **kwargs *)
    Lemma varkw_supplied : forall p k v, In p (declared f) -> is_varkw p = true ->
      kw_get k (c_kwargs c) = Some v -> mem k (kw_param_names (full_params f)) = false ->
      exists a, p_ann p = Some a /\ accepts_intact a v.
    Proof.
      intros p k v Hp Hvk Hk Hnot. destruct declared_binding as [b0 [Hb0 [Hincl Hd]]].
      destruct (bind_go_nil _ _ _ _ Hb0) as [-> _].
      set (ks := filter (fun k0 => negb (mem k0 (kw_param_names (full_params f)))) (kw_names c)).
      assert (Hin : In (p_name p, BKws ks) b).
      { apply Hincl. apply in_map_iff. exists p. split; [|assumption]. f_equal. unfold slot_nil.
        unfold is_varkw in Hvk. destruct (p_kind p); try discriminate; reflexivity. }
      destruct (Hsup (p_ann p) v) as [a [Ha Hacc]].
      { eapply supplied_in; [exact Hp|exact Hin|]. cbv beta iota. apply in_flat_map. exists k. split.
        - apply filter_In. split; [|now rewrite Hnot]. apply mem_In. eapply kw_get_mem; eassumption.
        - rewrite Hk. simpl. now left. }
      eauto.
    Qed.

    Variable inst : option value.
    Hypothesis Hprobe : clazz_probe f c inst = Ok tt.

    Lemma chk_accepts : forall a v s st, accepts_intact a v ->
      exists tv', chk check consumes f c inst a v s st = Ok {| a_tv := tv'; a_cons := a_cons st; a_checked := a_checked st; a_idx := a_idx st |}.
    Proof.
      intros a v s st [Hacc Hni]. unfold chk. rewrite Hprobe. specialize (Hacc (a_tv st)).
      destruct (check a v (a_tv st)) as [[uu|e] tv']; simpl in Hacc; [|discriminate].
      rewrite Hni. eauto.
    Qed.

    (* first pass: no positional value is looked at *)
    Lemma Hoff : forall (p : param) idx, idx = (if is_instance_method f then 1 else 0) -> In p (declared f) -> is_star p = false ->
      takes_positional p && negb (should_have_kwargs pc f) && Nat.ltb idx (List.length (wargs c)) = false.
    Proof.
      intros p idx -> _ _. destruct (kg_count f c g) as [Hl|[Hs _]].
      - unfold wargs. rewrite (kg_kw f c g), app_nil_r.
        replace (Nat.ltb (if is_instance_method f then 1 else 0) (List.length (c_recv c))) with false by (symmetry; apply Nat.ltb_ge; exact Hl).
        now rewrite andb_false_r.
      - rewrite Hs. simpl. now rewrite andb_false_r.
    Qed.

    Lemma pass_named_succeeds : forall ps st, incl ps (declared f) -> (forall p, In p ps -> is_star p = false) ->
      exists tv', pass_named pc check consumes f c inst ps (if is_instance_method f then 1 else 0) st =
                  Ok {| a_tv := tv'; a_cons := a_cons st; a_checked := a_checked st ++ map p_name (filter takes_keyword ps);
                        a_idx := if is_instance_method f then 1 else 0 |}.
    Proof.
      induction ps as [|p ps IH]; intros st Hi Hs.
      - simpl. rewrite app_nil_r. exists (a_tv st). reflexivity.
      - assert (Hp : In p (declared f)) by (apply Hi; now left).
        assert (Hps : is_star p = false) by (apply Hs; now left).
        assert (Hi' : incl ps (declared f)) by (intros x Hx; apply Hi; now right).
        assert (Hs' : forall q, In q ps -> is_star q = false) by (intros q Hq; apply Hs; now right).
        cbn [pass_named]. rewrite (Hoff p _ eq_refl Hp Hps).
        set (st1 := {| a_tv := a_tv st; a_cons := a_cons st;
                       a_checked := if takes_keyword p then a_checked st ++ [p_name p] else a_checked st; a_idx := a_idx st |}).
        assert (Hfin : forall tv1, exists tv', pass_named pc check consumes f c inst ps (if is_instance_method f then 1 else 0)
                           {| a_tv := tv1; a_cons := a_cons st1; a_checked := a_checked st1; a_idx := a_idx st1 |} =
                         Ok {| a_tv := tv'; a_cons := a_cons st; a_checked := a_checked st ++ map p_name (filter takes_keyword (p :: ps));
                               a_idx := if is_instance_method f then 1 else 0 |}).
        { intros tv1. destruct (IH {| a_tv := tv1; a_cons := a_cons st1; a_checked := a_checked st1; a_idx := a_idx st1 |} Hi' Hs') as [tv2 E2].
          rewrite E2. exists tv2. unfold st1. simpl. destruct (takes_keyword p); simpl; [now rewrite <- app_assoc|reflexivity]. }
        destruct (takes_keyword p) eqn:Etk; [destruct (kw_get (p_name p) (c_kwargs c)) as [v|] eqn:Ek|].
        + destruct (kw_supplied p v Hp Hps Etk Ek) as [a [Ha Hacc]]. rewrite Ha.
          destruct (chk_accepts a v (SKw (p_name p)) st1 Hacc) as [tv1 E1]. rewrite E1. cbn [Exn.bind]. apply Hfin.
        + destruct (default_supplied p Hp Hps (or_intror Ek)) as [a [d [Ha [Hd Hacc]]]]. rewrite Ha, Hd.
          destruct (chk_accepts a d (SDefault (p_name p)) st1 Hacc) as [tv1 E1]. rewrite E1. cbn [Exn.bind]. apply Hfin.
        + destruct (default_supplied p Hp Hps (or_introl Etk)) as [a [d [Ha [Hd Hacc]]]]. rewrite Ha, Hd.
          destruct (chk_accepts a d (SDefault (p_name p)) st1 Hacc) as [tv1 E1]. rewrite E1. cbn [Exn.bind]. apply Hfin.
    Qed.

    Lemma chk_all_succeeds : forall a l st, (forall v s, In (v, s) l -> accepts_intact a v) ->
      exists tv', chk_all check consumes f c inst a l st = Ok {| a_tv := tv'; a_cons := a_cons st; a_checked := a_checked st; a_idx := a_idx st |}.
    Proof.
      intros a. induction l as [|[v s] l IH]; intros st H.
      - simpl. exists (a_tv st). now destruct st.
      - simpl. pose proof (H v s (or_introl eq_refl)) as Hacc.
        destruct (chk_accepts a v s st Hacc) as [tv1 E1]. rewrite E1. cbn [Exn.bind].
        destruct (IH {| a_tv := tv1; a_cons := a_cons st; a_checked := a_checked st; a_idx := a_idx st |}) as [tv2 E2]; [intros v' s' Hin'; apply (H v' s'); now right|].
        rewrite E2. eauto.
    Qed.

    Lemma filter_declared_one : forall (k : param -> bool), (k = is_varpos \/ k = is_varkw) ->
      filter k (declared f) = [] \/ exists q, filter k (declared f) = [q] /\ In q (declared f) /\ k q = true.
    Proof.
      intros k Hk. destruct sig_parts as [_ [Hone _]].
      destruct (filter k (declared f)) as [|q l] eqn:E; [now left|right].
      assert (Hq : In q (filter k (declared f))) by (rewrite E; now left). apply filter_In in Hq as [Hq Hkq].
      exists q. split; [|split; assumption]. rewrite <- E. apply filter_single; [|assumption|assumption].
      apply andb_true_iff in Hone as [H1 H2]. apply Nat.leb_le in H1. apply Nat.leb_le in H2.
      assert (Hle : forall g0, List.length (filter g0 (declared f)) <= List.length (filter g0 (f_params f))).
      { intros g0. rewrite <- (kg_walk f c g). unfold params_without_self. apply filter_filter_length. }
      destruct Hk as [->| ->]; eapply Nat.le_trans; [apply Hle|assumption|apply Hle|assumption].
    Qed.

    (* a parameter of the undecorated callable is the receiver or a declared one *)
    Lemma full_params_split : forall r, In r (full_params f) ->
      (f_recv f = true /\ exists rest, full_params f = r :: rest) \/ In r (declared f).
    Proof.
      intros r Hr. unfold declared. destruct (f_recv f); [|now right].
      destruct (full_params f) as [|x rest]; [contradiction|]. destruct Hr as [->|Hr]; [left; eauto|now right].
    Qed.

    Lemma recv_not_kw : forall r rest, f_recv f = true -> full_params f = r :: rest -> mem (p_name r) (kw_names c) = false.
    Proof.
      intros r rest Hrecv Hfull. pose proof (kg_recv f c g) as Hr. unfold recv_shape in Hr. rewrite Hrecv in Hr.
      destruct Hr as [r' [rest' [x [Hfull' [_ [_ Hm]]]]]]. rewrite Hfull in Hfull'. now inversion Hfull'; subst.
    Qed.

    (* the whole argument phase succeeds, nothing consumed *)
    Lemma args_phase_succeeds : exists st, args_phase pc check consumes f c inst astate0 = Ok st /\ a_cons st = [].
    Proof.
      rewrite (args_phase_ref pc check consumes good). unfold run_pass. rewrite (kg_walk f c g).
      destruct (pass_named_succeeds (filter (fun p => negb (is_star p)) (declared f)) astate0)
        as [tv1 E1].
      { intros x Hx. now apply filter_In in Hx as [Hx _]. }
      { intros p Hp. apply filter_In in Hp as [_ Hp]. now apply negb_true_iff in Hp. }
      rewrite E1. cbn [Exn.bind]. simpl a_checked.
      set (st1 := {| a_tv := tv1; a_cons := a_cons astate0;
                     a_checked := [] ++ map p_name (filter takes_keyword (filter (fun p => negb (is_star p)) (declared f)));
                     a_idx := if is_instance_method f then 1 else 0 |}).
      (* second pass: no receiver in front of *args *)
      assert (E2 : exists tv2, pass_varpos check consumes f c inst (filter is_varpos (declared f)) st1 =
                               Ok {| a_tv := tv2; a_cons := a_cons st1; a_checked := a_checked st1; a_idx := a_idx st1 |}).
      { destruct (filter_declared_one is_varpos (or_introl eq_refl)) as [->|[q [-> [Hq Hkq]]]].
        - simpl. exists (a_tv st1). reflexivity.
        - unfold pass_varpos. destruct (p_ann q) as [a|] eqn:Ea; [|exfalso; now apply (kg_ann f c g q Hq)].
          assert (Hnil : skipn (a_idx st1) (combine (wargs c) (wsrc c)) = []).
          { unfold wargs, wsrc, arg_srcs. rewrite (kg_kw f c g). simpl. rewrite !app_nil_r.
            destruct (kg_count f c g) as [Hl|[_ Hnv]].
            - unfold st1. simpl a_idx. apply skipn_all2. rewrite combine_length, map_length. lia.
            - exfalso. assert (Hv : has_varpos (f_params f) = true); [|congruence].
              unfold has_varpos. apply existsb_exists. exists q. split; [|assumption]. now destruct (declared_incl_base f q Hsig Hq). }
          rewrite Hnil. simpl. exists (a_tv st1). reflexivity. }
      destruct E2 as [tv2 E2]. rewrite E2. cbn [Exn.bind].
      set (st2 := {| a_tv := tv2; a_cons := a_cons st1; a_checked := a_checked st1; a_idx := a_idx st1 |}).
      destruct (filter_declared_one is_varkw (or_intror eq_refl)) as [->|[q [-> [Hq Hkq]]]].
      - simpl. exists st2. split; reflexivity.
      - unfold pass_varkw. destruct (p_ann q) as [a|] eqn:Ea; [|exfalso; now apply (kg_ann f c g q Hq)].
        destruct (chk_all_succeeds a (map (fun kv => (snd kv, SKw (fst kv)))
                   (filter (fun kv => negb (mem (fst kv) (a_checked st2))) (c_kwargs c))) st2) as [tv3 E3].
        { intros v s Hin. apply in_map_iff in Hin as [[k v0] [E Hin]]. simpl in E. inversion E; subst. clear E.
          apply filter_In in Hin as [Hin Hnot]. simpl in Hnot. apply negb_true_iff in Hnot.
          assert (Hv1 : kw_get k (c_kwargs c) = Some v) by (apply kw_get_of_In; [exact (kg_kws f c g)|assumption]).
          destruct (varkw_supplied q k v Hq Hkq Hv1) as [a' [Ha' Hacc]]; [|congruence].
          (* k is not the name of a parameter that takes keywords *)
          apply mem_false. intros Hk. unfold kw_param_names in Hk. apply in_map_iff in Hk as [r [Hrn Hr]].
          apply filter_In in Hr as [Hr Hrk].
          destruct (full_params_split r Hr) as [[Hrecv [rest Hfull]]|Hrd].
          - pose proof (recv_not_kw r rest Hrecv Hfull) as Hm. apply mem_false in Hm. apply Hm. rewrite Hrn.
            unfold kw_names. now apply (in_map fst) in Hin.
          - apply mem_false in Hnot. apply Hnot. unfold st2, st1. simpl.
            apply in_map_iff. exists r. split; [assumption|]. apply filter_In. split.
            + apply filter_In. split; [assumption|]. unfold takes_kw in Hrk. unfold is_star, is_varpos, is_varkw. destruct (p_kind r); try discriminate; reflexivity.
            + unfold takes_kw in Hrk. unfold takes_keyword. destruct (p_kind r); try discriminate; reflexivity. }
        rewrite E3. eexists. split; reflexivity.
    Qed.
  End Call.

  Lemma auk_passes : forall f c, kw_guards f c -> assert_uses_kwargs pc f c = Ok tt.
  Proof.
    intros f c g. rewrite (assert_uses_kwargs_ref pc good), (args_without_self_ref pc good).
    unfold wargs. rewrite (kg_kw f c g), app_nil_r.
    pose proof (kg_one f c g) as Hl. pose proof (kg_strip f c g) as Hs.
    destruct (c_recv c) as [|r [|r2 l]]; simpl in Hl; try lia.
    - destruct (strips_first pc f); simpl; now rewrite andb_false_r.
    - rewrite Hs by discriminate. simpl. now rewrite andb_false_r.
  Qed.

  (* C04: the decorated call is the undecorated call *)
  Theorem transparent : forall f c bd b r,
    kw_guards f c -> twin_binding f c = Ok b ->
    (forall oa v, In (oa, v) (supplied_of f c b) -> exists a, oa = Some a /\ accepts_intact a v) ->
    f_ret f = Some r -> (forall b' cons v, bd b' cons = Ok v -> accepts_intact r v) ->
    run pc check consumes f c bd = twin f c bd.
  Proof.
    intros f c bd b r g Hb Hsup Hret Hres. rewrite (run_is_ref pc check consumes good). unfold run_ref.
    assert (Hinst : exists inst, instance_of f c = Ok inst).
    { unfold instance_of. destruct (is_instance_method f) eqn:Ei; [|eauto].
      pose proof (kg_inst f c g Ei) as Hne. unfold wargs. destruct (c_recv c); [congruence|]. simpl. eauto. }
    destruct Hinst as [inst Ei]. rewrite Ei, (auk_passes f c g).
    destruct (args_phase_succeeds f c b g Hb Hsup inst (kg_probe f c g inst Ei)) as [st [Ea Hcons]].
    rewrite Ea, Hcons. unfold invoke, twin. rewrite (kg_same f c g).
    unfold twin_binding, full_params in Hb. rewrite Hb.
    destruct (bd b []) as [v|e] eqn:Ebd; [|reflexivity].
    unfold ret_value, ret_seen. rewrite Hret, (kg_probe f c g inst Ei).
    destruct (Hres _ _ _ Ebd) as [Hacc Hint]. specialize (Hacc (a_tv st)).
    destruct (check r v (a_tv st)) as [[uu|e] tv']; simpl in Hacc; [cbn; rewrite ?Hret, Hint; reflexivity|discriminate].
  Qed.

  (* generator functions: a conforming keyword call returns a wrapper around the generator the undecorated function would
     return: same binding, nothing consumed, nothing of the body has run; its types are those of the return annotation *)
  Theorem gen_call_transparent : forall f c b a t,
    kw_guards f c -> twin_binding f c = Ok b ->
    (forall oa v, In (oa, v) (supplied_of f c b) -> exists a0, oa = Some a0 /\ accepts_intact a0 v) ->
    f_ret f = Some a -> gen_types pc a = Ok t ->
    run_gen pc check consumes f c = (Ok {| g_bind := b; g_cons := []; g_types := Some t |}, []).
  Proof.
    intros f c b a t g Hb Hsup Hret Ht. rewrite (run_gen_is_ref pc check consumes good). unfold run_gen_ref.
    assert (Hinst : exists inst, instance_of f c = Ok inst).
    { unfold instance_of. destruct (is_instance_method f) eqn:Ei; [|eauto].
      pose proof (kg_inst f c g Ei) as Hne. unfold wargs. destruct (c_recv c); [congruence|]. simpl. eauto. }
    destruct Hinst as [inst Ei]. rewrite Ei, (auk_passes f c g).
    destruct (args_phase_succeeds f c b g Hb Hsup inst (kg_probe f c g inst Ei)) as [st [Ea Hcons]].
    rewrite Ea, Hcons. unfold invoke_gen. rewrite (kg_same f c g).
    unfold twin_binding, full_params in Hb. rewrite Hb.
    unfold ret_gen. simpl. rewrite Hret, (kg_probe f c g inst Ei), Ht. reflexivity.
  Qed.

  (* ---------------- the guards over the ground truth ---------------- *)
  (* which real calls the guards cover, without the internals of the model: a module-level function or an instance method whose
     receiver parameter is called `self`, decorated directly or through @pedantic_class, not hidden behind another decorator,
     whose text does not contain "@staticmethod", called by keyword on the receiver the undecorated method would get *)
  Record truth_guards (f : fn) (c : call) : Prop := {
    tg_kw : c_args c = [];
    tg_kws : distinct (kw_names c) = true;
    tg_sig : sig_ok f = true;
    tg_noself : no_self_param f = true;             (* no parameter other than the receiver is called self *)
    tg_unbound : f_bound f = None;
    tg_first : f_first_arg f = first_arg_of (f_params f) None;
    tg_ann : forall p, In p (declared f) -> p_ann p <> None;
    tg_text : t_staticmethod (f_text f) = false;
    tg_recv : if f_recv f
              then exists r rest x, f_params f = r :: rest /\ p_name r = self_name /\ p_kind r = PosOrKw
                                    /\ c_recv c = [x] /\ c_twin_recv c = [x] /\ mem self_name (kw_names c) = false
              else c_recv c = [] /\ c_twin_recv c = []
                   /\ forallb (fun p => negb (Nat.eqb (p_name p) self_name)) (f_params f) = true;
  }.

  Lemma filter_all : forall {A} (g : A -> bool) l, forallb g l = true -> filter g l = l.
  Proof. intros A g. induction l as [|x l IH]; simpl; intros H; [reflexivity|]. apply andb_true_iff in H as [H1 H2]. rewrite H1. f_equal. auto. Qed.

  Lemma first_arg_in : forall ps n, first_arg_of ps None = Some n -> exists p, In p ps /\ p_name p = n.
  Proof.
    intros ps n H. unfold first_arg_of in H. destruct (filter is_pos ps) as [|p l] eqn:E; [discriminate|]. inversion H; subst.
    exists p. split; [|reflexivity]. assert (Hin : In p (filter is_pos ps)) by (rewrite E; now left). now apply filter_In in Hin as [Hin _].
  Qed.

  Theorem truth_kw_guards : forall f c, truth_guards f c -> kw_guards f c.
  Proof.
    intros f c t. pose proof (tg_recv f c t) as Hr. pose proof (tg_unbound f c t) as Hb.
    pose proof (sig_full_of f (tg_sig f c t) (tg_noself f c t)) as Hsig. pose proof (sig_ok_base f Hsig) as Hbase.
    pose proof Hbase as Hs0. unfold sig_base in Hs0. apply andb_true_iff in Hs0 as [Hs0 _]. apply andb_true_iff in Hs0 as [_ Hnoself].
    assert (Hfull : full_params f = f_params f) by (unfold full_params, func_params; now rewrite Hb).
    assert (Hcm : is_class_method f = false) by (unfold is_class_method; now rewrite Hb).
    assert (Hst : is_static_method f = false) by exact (tg_text f c t).
    destruct (f_recv f) eqn:Erecv.
    - destruct Hr as [r [rest [x [Hps [Hn [Hk [Hrc [Htw Hm]]]]]]]].
      assert (Hdecl : declared f = rest) by (unfold declared; now rewrite Erecv, Hfull, Hps).
      assert (Hinst : is_instance_method f = true).
      { unfold is_instance_method. rewrite (tg_first f c t), Hps. unfold first_arg_of. simpl. unfold is_pos. rewrite Hk, Hn. reflexivity. }
      constructor; try (exact (tg_kw f c t)); try (exact (tg_kws f c t)); try assumption; try (exact (tg_ann f c t)).
      + unfold params_without_self. rewrite Hdecl, Hps. simpl. rewrite Hn. simpl. rewrite Hdecl in Hnoself. now apply filter_all.
      + unfold recv_shape. rewrite Erecv. exists r, rest, x. rewrite Hfull, Hn. repeat split; assumption.
      + intros _. rewrite Hrc. discriminate.
      + intros _. rewrite (strips_first_ref pc good), Hinst. reflexivity.
      + rewrite Hrc. simpl. lia.
      + intros inst _. unfold clazz_probe. rewrite Hcm, Hst. now destruct inst as [[]|].
      + left. rewrite Hinst, Hrc. simpl. lia.
      + unfold bound_src, call_pos. rewrite Hb, (drops_args_ref pc good), Hcm, Hst. simpl. unfold wsrc, twin_pos. now rewrite Hrc, Htw.
    - destruct Hr as [Hrc [Htw Hall]].
      assert (Hdecl : declared f = f_params f) by (unfold declared; now rewrite Erecv, Hfull).
      assert (Hinst : is_instance_method f = false).
      { unfold is_instance_method. rewrite (tg_first f c t). destruct (first_arg_of (f_params f) None) as [n|] eqn:E; [|reflexivity].
        destruct (first_arg_in _ _ E) as [p [Hp Hpn]]. rewrite forallb_forall in Hall. specialize (Hall p Hp). rewrite Hpn in Hall.
        now apply negb_true_iff in Hall. }
      constructor; try (exact (tg_kw f c t)); try (exact (tg_kws f c t)); try assumption; try (exact (tg_ann f c t)).
      + unfold params_without_self. rewrite Hdecl. now apply filter_all.
      + unfold recv_shape. now rewrite Erecv.
      + rewrite Hinst. discriminate.
      + intros H0. now rewrite Hrc in H0.
      + rewrite Hrc. simpl. lia.
      + intros inst _. unfold clazz_probe. rewrite Hcm, Hst. now destruct inst as [[]|].
      + left. rewrite Hrc. simpl. lia.
      + unfold bound_src, call_pos. rewrite Hb, (drops_args_ref pc good), Hcm, Hst. simpl. unfold wsrc, twin_pos. now rewrite Hrc, Htw.
  Qed.
End C04.
