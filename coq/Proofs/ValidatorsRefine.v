(* C14 - for every good shape record and all oracles within their raise-sets, the model of the
   validators refines the specification on every validator tree and every value of its input
   domain; convert_value refines its specification everywhere.                                  *)
From Coq Require Import List ZArith Bool Lia ZifyBool SpecFloat.
From PV Require Import Base.Exn Model.ValidatorsBase Model.ValidatorsRegex Model.Validators Spec.ValidatorsSpec
                       Proofs.ValidatorsRegexProofs Proofs.ValidatorsPrims Proofs.ValidatorsGood.
Import ListNotations.
Open Scope Z_scope.

Notation VEC := ValidatorExceptionC.

(* ---------- induction on validator trees --------------------------------------------------------------- *)
Definition is_leaf (w : validator) : Prop :=
  match w with WForEach _ | WComposite _ => False | _ => True end.

Section ValidatorInd.
  Variable P : validator -> Prop.
  Hypothesis Hleaf : forall w, is_leaf w -> P w.
  Hypothesis Hfe : forall cs, Forall P cs -> P (WForEach cs).
  Hypothesis Hco : forall cs, Forall P cs -> P (WComposite cs).
  Fixpoint validator_nested_ind (w : validator) : P w :=
    let fix all (l : list validator) : Forall P l :=
      match l with
      | [] => Forall_nil P
      | c :: l' => Forall_cons c (validator_nested_ind c) (all l')
      end in
    match w with
    | WForEach cs => Hfe cs (all cs)
    | WComposite cs => Hco cs (all cs)
    | WMin b i => Hleaf (WMin b i) I
    | WMax b i => Hleaf (WMax b i) I
    | WMinLen n => Hleaf (WMinLen n) I
    | WMaxLen n => Hleaf (WMaxLen n) I
    | WNotEmpty s => Hleaf (WNotEmpty s) I
    | WEmail p pp => Hleaf (WEmail p pp) I
    | WIsUuid c => Hleaf (WIsUuid c) I
    | WIsEnum m i c u => Hleaf (WIsEnum m i c u) I
    | WMatch p => Hleaf (WMatch p) I
    | WIso => Hleaf WIso I
    | WUnix => Hleaf WUnix I
    end.
End ValidatorInd.

Lemma z_cmp_lt : forall a b, z_cmp CLt a b = (a <? b).
Proof. intros. unfold z_cmp, cmp_holds, Z.ltb. now destruct (a ?= b). Qed.
Lemma z_cmp_gt : forall a b, z_cmp CGt a b = (b <? a).
Proof. intros. unfold z_cmp, cmp_holds. rewrite Z.ltb_antisym. unfold Z.leb. now destruct (a ?= b). Qed.
Lemma z_cmp_le : forall a b, z_cmp CLe a b = (a <=? b).
Proof. intros. unfold z_cmp, cmp_holds, Z.leb. now destruct (a ?= b). Qed.
Lemma z_cmp_eq : forall a b, z_cmp CEq a b = (a =? b).
Proof. intros. unfold z_cmp, cmp_holds. rewrite Z.eqb_compare. now destruct (a ?= b). Qed.

Lemma zlen_nonneg : forall A (l : list A), 0 <= zlen l.
Proof. intros. unfold zlen. lia. Qed.

Lemma py_len_nonneg : forall v l, py_len v = Some l -> 0 <= l.
Proof. intros v n H; destruct v; simpl in H; try discriminate; injection H as <-; apply zlen_nonneg. Qed.

Section Refine.
  Variable S : shapes.
  Variable O : oracles.
  Hypothesis good : shapes_good S = true.
  Hypothesis oracles : oracles_ok O.
  Let G : good_props S := shapes_good_props S good.

  Local Notation validate := (validate S O).
  Local Notation spec := (spec O).

  (* the claim for one validator: on its input domain the call returns what the documented predicate demands,
     and every rejection is a ValidatorException *)
  Definition meets (w : validator) : Prop :=
    forall v, spec w v <> SOut -> validate w v = outcome_of (spec w v).

  (* ----- Min / Max ----- *)
  Lemma in_dom_numbers : forall d v, dom_numbers_ok d = true -> is_number v = true -> in_dom d v = true.
  Proof. intros [] [] D N; simpl in *; congruence. Qed.

  Lemma min_sem : forall b incl v x y, num_view v = Some x -> num_view b = Some y ->
    validate (WMin b incl) v = if min_ref incl (xcmp x y) then Raise VEC else Ok v.
  Proof.
    intros b incl v x y Vx Vy. simpl. unfold bound_validate.
    rewrite in_dom_numbers; [| apply (g_min_dom S G) | destruct v; simpl in Vx; try discriminate; reflexivity].
    simpl. rewrite (bound_tests_sem _ _ _ _ _ x y Vx Vy), (tests_equiv_sound _ _ (g_min S G)), (g_vexc S G).
    reflexivity.
  Qed.

  Lemma max_sem : forall b incl v x y, num_view v = Some x -> num_view b = Some y ->
    validate (WMax b incl) v = if max_ref incl (xcmp x y) then Raise VEC else Ok v.
  Proof.
    intros b incl v x y Vx Vy. simpl. unfold bound_validate.
    rewrite in_dom_numbers; [| apply (g_max_dom S G) | destruct v; simpl in Vx; try discriminate; reflexivity].
    simpl. rewrite (bound_tests_sem _ _ _ _ _ x y Vx Vy), (tests_equiv_sound _ _ (g_max S G)), (g_vexc S G).
    reflexivity.
  Qed.

  (* Min, ALL numbers (ints, bools, every float incl. +-inf and NaN): accepted (unchanged) exactly when
     value >= bound, resp. > *)
  Lemma min_exact : forall b incl v, is_number v = true -> is_number b = true ->
    validate (WMin b incl) v = if sat_min b incl v then Ok v else Raise VEC.
  Proof.
    intros b incl v Nv Nb.
    destruct (number_view v Nv) as [x Vx]. destruct (number_view b Nb) as [y Vy].
    rewrite (min_sem b incl v x y Vx Vy), (sat_min_cmp v b x y incl Vx Vy).
    now destruct (min_ref incl (xcmp x y)).
  Qed.

  Lemma max_exact : forall b incl v, is_number v = true -> is_number b = true ->
    validate (WMax b incl) v = if sat_max b incl v then Ok v else Raise VEC.
  Proof.
    intros b incl v Nv Nb.
    destruct (number_view v Nv) as [x Vx]. destruct (number_view b Nb) as [y Vy].
    rewrite (max_sem b incl v x y Vx Vy), (sat_max_cmp v b x y incl Vx Vy).
    now destruct (max_ref incl (xcmp x y)).
  Qed.

  (* NaN (as value or as bound) is rejected by every Min and every Max *)
  Lemma minmax_nan_rejected : forall b incl v, is_number v = true -> is_number b = true -> is_nan v || is_nan b = true ->
    validate (WMin b incl) v = Raise VEC /\ validate (WMax b incl) v = Raise VEC.
  Proof.
    intros b incl v Nv Nb A. rewrite (min_exact b incl v Nv Nb), (max_exact b incl v Nv Nb).
    destruct (sat_nan b incl v A) as [-> ->]. split; reflexivity.
  Qed.

  Lemma meets_min : forall b incl, meets (WMin b incl).
  Proof.
    intros b incl v Hs. cbn [ValidatorsSpec.spec] in *.
    destruct (is_number v && is_number b) eqn:N; [|congruence]. apply andb_true_iff in N as [Nv Nb].
    rewrite (min_exact b incl v Nv Nb). now destruct (sat_min b incl v).
  Qed.

  Lemma meets_max : forall b incl, meets (WMax b incl).
  Proof.
    intros b incl v Hs. cbn [ValidatorsSpec.spec] in *.
    destruct (is_number v && is_number b) eqn:N; [|congruence]. apply andb_true_iff in N as [Nv Nb].
    rewrite (max_exact b incl v Nv Nb). now destruct (sat_max b incl v).
  Qed.

  (* ----- MinLength / MaxLength: every value, every limit ----- *)
  Lemma in_dom_sized : forall v, in_dom DomSized v = match py_len v with Some _ => true | None => false end.
  Proof. reflexivity. Qed.

  Lemma minlen_exact : forall n v,
    validate (WMinLen n) v = match py_len v with Some l => if n <=? l then Ok v else Raise VEC | None => Raise VEC end.
  Proof.
    intros n v. simpl. unfold length_validate. rewrite (g_minlen_dom S G), (g_minlen_op S G), (g_vexc S G), in_dom_sized.
    destruct (py_len v) as [l|]; cbn [negb]; [|reflexivity]. rewrite z_cmp_lt.
    destruct (l <? n) eqn:E, (n <=? l) eqn:F; try reflexivity; lia.
  Qed.

  Lemma maxlen_exact : forall n v,
    validate (WMaxLen n) v = match py_len v with Some l => if l <=? n then Ok v else Raise VEC | None => Raise VEC end.
  Proof.
    intros n v. simpl. unfold length_validate. rewrite (g_maxlen_dom S G), (g_maxlen_op S G), (g_vexc S G), in_dom_sized.
    destruct (py_len v) as [l|]; cbn [negb]; [|reflexivity]. rewrite z_cmp_gt.
    destruct (n <? l) eqn:E, (l <=? n) eqn:F; try reflexivity; lia.
  Qed.

  Lemma meets_minlen : forall n, meets (WMinLen n).
  Proof. intros n v _. rewrite minlen_exact. simpl. destruct (py_len v) as [l|]; [|reflexivity]. now destruct (n <=? l). Qed.
  Lemma meets_maxlen : forall n, meets (WMaxLen n).
  Proof. intros n v _. rewrite maxlen_exact. simpl. destruct (py_len v) as [l|]; [|reflexivity]. now destruct (l <=? n). Qed.

  (* ----- NotEmpty ----- *)
  Lemma empty_test_sem : forall op lit l, empty_test op lit = true -> 0 <= l -> z_cmp op l lit = (l =? 0).
  Proof.
    intros [] lit l H L; simpl in H; try discriminate.
    - rewrite z_cmp_lt. lia.
    - rewrite z_cmp_le. lia.
    - rewrite z_cmp_eq. lia.
  Qed.

  Lemma notempty_str : forall strip s,
    validate (WNotEmpty strip) (VStr s) = if all_ws s then Raise VEC else Ok (if strip then VStr (py_strip s) else VStr s).
  Proof.
    intros strip s. simpl. pose proof (g_notempty S G) as N. unfold notempty_good in N.
    repeat (apply andb_true_iff in N as [N ?]). rewrite N, (g_vexc S G), all_ws_strip.
    destruct (all_ws s); [reflexivity|]. now destruct (ne_return (s_notempty S)).
  Qed.

  Lemma notempty_other : forall strip v, is_str v = false ->
    validate (WNotEmpty strip) v =
    if is_sequence v then match py_len v with Some l => if l =? 0 then Raise VEC else Ok v | None => Raise VEC end
    else Raise VEC.
  Proof.
    intros strip v NS. pose proof (g_notempty S G) as N. unfold notempty_good in N.
    repeat (apply andb_true_iff in N as [N ?]).
    match goal with X : domkind_eqb _ _ = true |- _ => apply domkind_eqb_eq in X; rename X into D end.
    match goal with X : empty_test _ _ = true |- _ => rename X into E end.
    assert (R : validate (WNotEmpty strip) v =
                if in_dom (ne_seq_dom (s_notempty S)) v then
                  match py_len v with
                  | None => Raise TypeErrorC
                  | Some l => if z_cmp (ne_seq_op (s_notempty S)) l (ne_seq_lit (s_notempty S)) then Raise (s_vexc S) else Ok v
                  end
                else Raise (s_vexc S)).
    { destruct v; try reflexivity. discriminate. }
    rewrite R, D, (g_vexc S G). simpl in_dom. destruct (is_sequence v) eqn:Q; [|reflexivity].
    destruct (py_len v) as [l|] eqn:L.
    - now rewrite (empty_test_sem _ _ l E (py_len_nonneg v l L)).
    - destruct v; simpl in Q, L; discriminate.
  Qed.

  Lemma meets_notempty : forall strip, meets (WNotEmpty strip).
  Proof.
    intros strip v _. destruct (is_str v) eqn:IS.
    - destruct v; try discriminate. rewrite notempty_str. simpl. now destruct (all_ws s).
    - rewrite (notempty_other strip v IS). destruct v; try discriminate; simpl;
        try reflexivity; match goal with |- context [?l =? 0] => now destruct (l =? 0) end.
  Qed.

  (* ----- Email ----- *)
  Lemma email_default_str : forall pp s,
    validate (WEmail None pp) (VStr s) = if email_predb s then Ok (pp_apply pp s) else Raise VEC.
  Proof.
    intros pp s. simpl. rewrite (g_email_mode S G), (g_vexc S G). simpl re_test.
    now rewrite (g_email_re S G).
  Qed.

  Lemma meets_email : forall pat pp, meets (WEmail pat pp).
  Proof.
    intros pat pp v Hs. destruct v; simpl in Hs; try congruence.
    destruct pat as [r|].
    - simpl. rewrite (g_email_mode S G), (g_vexc S G). simpl. now destruct (re_fullmatch r s).
    - rewrite email_default_str. simpl. now destruct (email_predb s).
  Qed.

  (* ----- IsUuid ----- *)
  Lemma meets_uuid : forall convert, meets (WIsUuid convert).
  Proof.
    intros convert v Hs. destruct v; simpl in Hs; try congruence.
    simpl. unfold uuid_validate. simpl py_str. cbn [bind]. pose proof (ok_uuid O oracles s) as R.
    destruct (o_uuid O s) as [u|e]; [reflexivity|]. simpl in R.
    now rewrite (handle_rv _ _ _ _ _ (g_uuid S G) R), (g_vexc S G).
  Qed.

  (* ----- IsEnum ----- *)
  Lemma enum_lookup_member : forall ms v,
    enum_lookup ms v = match member_of ms v with Some m => Ok m | None => Raise ValueErrorC end.
  Proof.
    intros ms v. unfold enum_lookup, member_of.
    destruct v; try (destruct (find_index _ ms 0); reflexivity).
    destruct payload as [|i [|? ?]]; try (destruct (find_index _ ms 0); reflexivity).
    now destruct ((kind =? K_ENUM) && (0 <=? i) && (i <? zlen ms)).
  Qed.

  Lemma within_VE : within ValueErrorC [ValueErrorC; TypeErrorC] = true. Proof. reflexivity. Qed.
  Lemma within_TE : within TypeErrorC [ValueErrorC; TypeErrorC] = true. Proof. reflexivity. Qed.

  Lemma incl_VE : incl [ValueErrorC] [ValueErrorC; TypeErrorC].
  Proof. intros x [<-|[]]. left; reflexivity. Qed.

  Lemma enum_handle : forall A e, within e [ValueErrorC] = true \/ e = TypeErrorC ->
    @handle A (s_vexc S) (s_h_is_enum S) e = Raise VEC.
  Proof.
    intros A e [W| ->].
    - rewrite (handle_rv _ _ _ _ _ (g_enum S G) (within_more _ _ _ W incl_VE)).
      now rewrite (g_vexc S G).
    - now rewrite (handle_rv _ _ _ _ _ (g_enum S G) within_TE), (g_vexc S G).
  Qed.

  (* int(value) of the model (behind the float guard) against "the integer the value denotes" of the specification *)
  Lemma enum_int_value_denoted : forall ms v,
    match enum_int_value S O ms v with
    | Ok z => int_denoted O ms v = Some z
    | Raise e => int_denoted O ms v = None /\ (within e [ValueErrorC] = true \/ e = TypeErrorC)
    end.
  Proof.
    intros ms v.
    destruct v as [ | b | z | f | s | s | l | l | ks vs | n | kind payload];
      cbn [enum_int_value enum_int_arg py_int int_denoted].
    - auto.
    - auto.
    - auto.
    - (* float: whole numbers are truncated exactly, everything else (fractions, inf, nan) is a ValueError *)
      rewrite (g_enum_guard S G). cbn [andb].
      destruct (float_is_integral f) eqn:FI; cbn [negb].
      + destruct f as [s| s | | s m e]; try discriminate; cbn [int_of_float]; reflexivity.
      + split; [reflexivity | left; reflexivity].
    - (* str *) unfold py_int_of_str. destruct (int_of_canonical s) as [[z|e]|] eqn:C.
      + reflexivity.
      + unfold int_of_canonical in C. destruct (parse_dec (num_strip s)); [|discriminate].
        destruct (over_limit (num_strip s)); injection C as C; [|discriminate]. subst e. auto.
      + pose proof (ok_int O oracles s) as R. destruct (o_int_of_str O s); simpl in *; auto.
    - (* bytes *) pose proof (ok_intb O oracles s) as R. destruct (o_int_of_bytes O s); simpl in *; auto.
    - auto.
    - auto.
    - auto.
    - auto.
    - (* members *)
      destruct payload as [|i [|? ?]]; auto.
      destruct (kind =? K_ENUM); cbn [andb]; auto.
      destruct (nth_error ms (Z.to_nat i)) as [[]|]; destruct (0 <=? i); auto.
  Qed.

  Lemma meets_enum : forall ms ie convert upper, meets (WIsEnum ms ie convert upper).
  Proof.
    intros ms ie convert upper v _.
    cbn [ValidatorsSpec.spec Validators.validate]. unfold enum_validate.
    set (v1 := match v with VStr s => if upper then VStr (py_upper O s) else v | _ => v end).
    destruct ie.
    - pose proof (enum_int_value_denoted ms v1) as D.
      destruct (enum_int_value S O ms v1) as [z|e].
      + rewrite D, enum_lookup_member. destruct (member_of ms (VInt z)); [reflexivity|].
        apply enum_handle. left; reflexivity.
      + destruct D as [D W]. rewrite D. now apply enum_handle.
    - rewrite enum_lookup_member. destruct (member_of ms v1); [reflexivity|].
      apply enum_handle. left; reflexivity.
  Qed.

  (* ----- MatchPattern, DatetimeIsoFormat, DateTimeUnixTimestamp ----- *)
  Lemma match_str : forall pat s, validate (WMatch pat) (VStr s) = if re_search pat s then Ok (VStr s) else Raise VEC.
  Proof. intros. simpl. unfold match_validate. simpl py_str. now rewrite (g_match_mode S G), (g_vexc S G). Qed.

  Lemma meets_match : forall pat, meets (WMatch pat).
  Proof.
    intros pat v Hs. destruct v; simpl in Hs; try congruence. rewrite match_str. simpl. now destruct (re_search pat s).
  Qed.

  Lemma meets_iso : meets WIso.
  Proof.
    intros v _. simpl. unfold iso_validate. pose proof (ok_iso O oracles v) as R.
    destruct (o_fromiso O v) as [d|e]; [reflexivity|]. simpl in R.
    now rewrite (handle_rv _ _ _ _ _ (g_iso S G) R), (g_vexc S G).
  Qed.

  Lemma epoch_step : forall f,
    match o_epoch_plus O f with Ok d => Ok d | Raise e => handle VEC (s_h_unix_add S) e end =
    outcome_of (match o_epoch_plus O f with Ok d => SAccept d | Raise _ => SReject end).
  Proof.
    intro f. pose proof (ok_epoch O oracles f) as R. destruct (o_epoch_plus O f) as [d|e]; [reflexivity|].
    simpl in R. now rewrite (handle_rv _ _ _ _ _ (g_unix_add S G) R).
  Qed.

  Lemma within_OE : within OverflowErrorC [ValueErrorC; OverflowErrorC] = true. Proof. reflexivity. Qed.
  Lemma incl_VE_unix : incl [ValueErrorC] [ValueErrorC; OverflowErrorC].
  Proof. intros x [<-|[]]. left; reflexivity. Qed.

  Lemma float_of_Z_raises : forall z e, float_of_Z z = Raise e -> e = OverflowErrorC.
  Proof.
    intros z e. unfold float_of_Z. destruct (z =? 0); [discriminate|]. cbv zeta.
    destruct (Z.log2 (Z.abs z) + 1 <=? 53); [discriminate|].
    match goal with |- (if ?c then _ else _) = _ -> _ => destruct c end; [|discriminate].
    intro H. now injection H as <-.
  Qed.

  Lemma meets_unix : meets WUnix.
  Proof.
    intros v _. simpl. unfold unix_validate.
    rewrite (g_unix_dom S G), (g_vexc S G).
    destruct v; simpl; try reflexivity.
    - apply epoch_step.
    - destruct (float_of_Z z) as [f|e] eqn:F; [apply epoch_step|].
      apply float_of_Z_raises in F as ->. now rewrite (handle_rv _ _ _ _ _ (g_unix_float S G) within_OE).
    - apply epoch_step.
    - pose proof (ok_float O oracles s) as R. destruct (o_float_of_str O s) as [f|e]; [apply epoch_step|].
      cbn [raises_within] in R. now rewrite (handle_rv _ _ _ _ _ (g_unix_float S G) (within_more _ _ _ R incl_VE_unix)).
  Qed.

  Lemma meets_leaf : forall w, is_leaf w -> meets w.
  Proof.
    intros [] L; try contradiction.
    - apply meets_min. - apply meets_max. - apply meets_minlen. - apply meets_maxlen. - apply meets_notempty.
    - apply meets_email. - apply meets_uuid. - apply meets_enum. - apply meets_match. - apply meets_iso. - apply meets_unix.
  Qed.

  (* ----- Composite: by induction on the children ----- *)
  Lemma composite_children : forall cs v, Forall meets cs ->
    all_accept spec cs v <> SOut ->
    run_children validate false cs v = match all_accept spec cs v with SAccept _ => Ok v | _ => Raise VEC end.
  Proof.
    induction cs as [|c cs IH]; intros v F Hs; simpl in *; [reflexivity|].
    inversion F as [|? ? Mc Fcs]; subst.
    assert (Sc : spec c v <> SOut) by (destruct (spec c v); congruence).
    rewrite (Mc v Sc). destruct (spec c v) as [| |r]; simpl; try reflexivity; try congruence.
    now apply IH.
  Qed.

  Lemma meets_composite : forall cs, Forall meets cs -> meets (WComposite cs).
  Proof.
    intros cs F v Hs. cbn [ValidatorsSpec.spec Validators.validate] in *.
    rewrite (g_co_threads S G), (g_co_ret S G), (composite_children cs v F Hs).
    destruct (all_accept spec cs v) eqn:E; try reflexivity.
    (* all_accept returns the value itself *)
    assert (X : forall l x r, all_accept spec l x = SAccept r -> r = x).
    { induction l as [|a l IHl]; simpl; intros x r0 H; [congruence|]. destruct (spec a x); try discriminate. eauto. }
    simpl. now rewrite (X _ _ _ E).
  Qed.

  (* ----- ForEach: by induction on the children (one item) and on the items ----- *)
  Lemma foreach_pipe : forall cs it, Forall meets cs ->
    pipe spec cs it <> SOut ->
    run_children validate true cs it = outcome_of (pipe spec cs it).
  Proof.
    induction cs as [|c cs IH]; intros it F Hs; simpl in *; [reflexivity|].
    inversion F as [|? ? Mc Fcs]; subst.
    assert (Sc : spec c it <> SOut) by (destruct (spec c it); congruence).
    rewrite (Mc it Sc). destruct (spec c it) as [| |r]; simpl; try reflexivity; try congruence.
    now apply IH.
  Qed.

  Lemma each_accept_list : forall one items r, each_accept one items = SAccept r -> exists rs, r = VList rs.
  Proof.
    induction items as [|it items IH]; simpl; intros r H.
    - injection H as <-. eauto.
    - destruct (one it); try discriminate. destruct (each_accept one items) as [| |[]]; try discriminate.
      injection H as <-. eauto.
  Qed.

  Lemma foreach_items : forall cs items, Forall meets cs ->
    each_accept (pipe spec cs) items <> SOut ->
    match each_item (run_children validate true cs) false items with Ok rs => Ok (VList rs) | Raise e => Raise e end
    = outcome_of (each_accept (pipe spec cs) items).
  Proof.
    intros cs items F. induction items as [|it items IH]; intros Hs; simpl in *; [reflexivity|].
    assert (Si : pipe spec cs it <> SOut) by (destruct (pipe spec cs it); congruence).
    rewrite (foreach_pipe cs it F Si).
    destruct (pipe spec cs it) as [| |r]; simpl; try reflexivity; try congruence.
    assert (Sr : each_accept (pipe spec cs) items <> SOut).
    { destruct (each_accept (pipe spec cs) items) as [| |[]]; congruence. }
    specialize (IH Sr).
    destruct (each_accept (pipe spec cs) items) as [| |r'] eqn:E.
    - congruence.
    - simpl in *. destruct (each_item _ false items); [discriminate | assumption].
    - destruct (each_accept_list _ _ _ E) as [rs ->]. simpl in *.
      destruct (each_item _ false items); [|discriminate]. injection IH as ->. reflexivity.
  Qed.

  Lemma meets_foreach : forall cs, Forall meets cs -> meets (WForEach cs).
  Proof.
    intros cs F v Hs. cbn [ValidatorsSpec.spec Validators.validate] in *.
    rewrite (g_fe_dom S G), (g_fe_threads S G), (g_fe_ret S G), (g_vexc S G). simpl in_dom.
    destruct (iter_items v) as [items|]; simpl; [|reflexivity].
    now apply foreach_items.
  Qed.

  (* for every validator tree and every value *)
  Theorem validate_refines_spec : forall w, meets w.
  Proof.
    apply validator_nested_ind.
    - apply meets_leaf.
    - apply meets_foreach.
    - apply meets_composite.
  Qed.

  (* validate_param differs from validate only by the label on the exception *)
  Theorem validate_param_same : forall w v, validate_param S O w v = validate w v.
  Proof.
    intros w v. unfold validate_param. destruct (validate w v) as [r|e]; [reflexivity|].
    apply handle_reraise. apply (g_param S G).
  Qed.

  (* ----- Composite / ForEach directly on the model (no gaps involved) ----- *)
  Lemma composite_ok_iff : forall cs v,
    validate (WComposite cs) v = Ok v <-> Forall (fun c => exists r, validate c v = Ok r) cs.
  Proof.
    intros cs v. cbn [Validators.validate]. rewrite (g_co_threads S G), (g_co_ret S G).
    induction cs as [|c cs IH]; simpl.
    - split; [constructor | reflexivity].
    - destruct (validate c v) as [r|e] eqn:E.
      + rewrite IH. split; [intro H; constructor; eauto | intro H; now inversion H].
      + split; [discriminate|]. intro H. inversion H as [|? ? [r Hr] _]. congruence.
  Qed.

  Lemma composite_result : forall cs v, (exists e, validate (WComposite cs) v = Raise e) \/ validate (WComposite cs) v = Ok v.
  Proof.
    intros cs v. cbn [Validators.validate]. rewrite (g_co_ret S G).
    destruct (run_children _ _ cs v); eauto.
  Qed.

  (* a rejection of Composite is the outcome of its first rejecting child *)
  Lemma composite_first_failure : forall cs v e, validate (WComposite cs) v = Raise e ->
    exists pre c post, cs = pre ++ c :: post /\ validate c v = Raise e /\ Forall (fun c' => exists r, validate c' v = Ok r) pre.
  Proof.
    intros cs v e. cbn [Validators.validate]. rewrite (g_co_threads S G), (g_co_ret S G).
    induction cs as [|c cs IH]; simpl; [discriminate|].
    destruct (validate c v) as [r|e'] eqn:E.
    - intro H. destruct (IH H) as (pre & c' & post & -> & Hc & Hp).
      exists (c :: pre), c', post. repeat split; auto. constructor; eauto.
    - intro H. injection H as ->. exists [], c, cs. repeat split; auto.
  Qed.

  Lemma foreach_ok_iff : forall cs items rs,
    validate (WForEach cs) (VList items) = Ok (VList rs) <->
    Forall2 (fun it r => run_children validate true cs it = Ok r) items rs.
  Proof.
    intros cs items rs. cbn [Validators.validate]. rewrite (g_fe_dom S G), (g_fe_threads S G), (g_fe_ret S G).
    simpl in_dom. simpl iter_items. cbn [negb].
    revert rs. induction items as [|it items IH]; intro rs; simpl.
    - split; [intro H; injection H as <-; constructor | intro H; now inversion H].
    - destruct (run_children validate true cs it) as [r|e] eqn:E.
      + specialize (IH (tl rs)). destruct (each_item _ false items) as [rs'|e'].
        * split.
          -- intro H. injection H as <-. constructor; [assumption|]. apply IH. reflexivity.
          -- intro H. inversion H as [|? r0 ? rs0 H1 H2]; subst. simpl in IH.
             apply IH in H2. injection H2 as ->. congruence.
        * split; [discriminate|]. intro H. inversion H as [|? r0 ? rs0 H1 H2]; subst. simpl in IH.
          apply IH in H2. discriminate.
      + split; [discriminate|]. intro H. inversion H; subst. congruence.
  Qed.

  (* ---------- convert_value ---------------------------------------------------------------------- *)
  Lemma normalise_ref : forall v, normalise O (s_cv_norm S) v =
    match py_str O v with Ok s => Ok (py_lower O (py_strip s)) | Raise e => Raise e end.
  Proof. intro v. unfold normalise. rewrite (g_norm S G). reflexivity. Qed.

  (* str(v) raises nothing but ValueError (an int beyond the digit limit) *)
  Lemma py_str_raises : forall v e, py_str O v = Raise e -> e = ValueErrorC.
  Proof.
    intros v e. destruct v; simpl; try discriminate.
    - destruct b; discriminate.
    - destruct (str_of_int_cases z) as [-> | ->]; [discriminate|]. intro H. now injection H as <-.
  Qed.

  Lemma within_VE1 : within ValueErrorC [ValueErrorC] = true. Proof. reflexivity. Qed.

  Theorem convert_refines_spec : forall v t, convert_value S O v t = spec_convert O v t.
  Proof.
    intros v t. unfold convert_value, spec_convert. destruct (isinstance_t v t); [reflexivity|].
    rewrite normalise_ref. destruct (py_str O v) as [s0|e] eqn:PS.
    2:{ apply py_str_raises in PS as ->. now rewrite (handle_raise _ _ _ _ _ _ (g_convert_norm S G) within_VE1). }
    set (s := py_lower O (py_strip s0)).
    destruct t; try reflexivity.
    - rewrite (g_true S G), (g_false S G), (g_bool_else S G). unfold str_in. simpl existsb.
      now rewrite !orb_false_r.
    - destruct (py_int_of_str O s) as [z|e] eqn:PI; [reflexivity|].
      assert (W : within e [ValueErrorC] = true).
      { unfold py_int_of_str, int_of_canonical in PI. destruct (parse_dec (num_strip s)).
        - destruct (over_limit (num_strip s)); [|discriminate]. now injection PI as <-.
        - pose proof (ok_int O oracles s) as R. rewrite PI in R. exact R. }
      now rewrite (handle_raise _ _ _ _ _ _ (g_convert S G) W).
    - pose proof (ok_float O oracles s) as R. destruct (o_float_of_str O s) as [f|e]; [reflexivity|]. simpl in R.
      now rewrite (handle_raise _ _ _ _ _ _ (g_convert S G) R).
  Qed.

  (* an instance of the requested type, or ConversionError - for any input *)
  Theorem convert_typed : forall v t,
    match convert_value S O v t with Ok r => isinstance_t r t = true | Raise e => e = ConversionErrorC end.
  Proof.
    intros v t. rewrite convert_refines_spec. unfold spec_convert.
    destruct (isinstance_t v t) eqn:I; [assumption|].
    destruct (py_str O v) as [s0|e]; [|reflexivity].
    set (s := py_lower O (py_strip s0)).
    destruct t; simpl; try reflexivity.
    - destruct (zlist_eqb s S_true || zlist_eqb s [49]); [reflexivity|].
      destruct (zlist_eqb s S_false || zlist_eqb s [48]); reflexivity.
    - now destruct (py_int_of_str O s).
    - now destruct (o_float_of_str O s).
  Qed.

  (* convert_value inverts str() on ints: whenever str(z) exists (at most 4300 digits), it is read back as z *)
  Theorem convert_inverts_str_int : forall z s, py_str O (VInt z) = Ok s -> convert_value S O (VStr s) TInt = Ok (VInt z).
  Proof.
    intros z s H. rewrite convert_refines_spec. unfold spec_convert. simpl isinstance_t. cbn [py_str] in *.
    destruct (str_of_int_cases z) as [E|E]; rewrite E in H; [|discriminate]. injection H as <-.
    unfold py_lower. rewrite show_Z_strip, show_Z_ascii, show_Z_lower, (int_of_show O z _ E). reflexivity.
  Qed.

  (* ... and on bools *)
  Theorem convert_inverts_str_bool : forall b s, py_str O (VBool b) = Ok s -> convert_value S O (VStr s) TBool = Ok (VBool b).
  Proof. intros b s H. rewrite convert_refines_spec. destruct b; injection H as <-; reflexivity. Qed.

  (* the whole bool table: exactly 'true' / '1' and 'false' / '0' after strip().lower() *)
  Theorem convert_bool_table : forall v s0, isinstance_t v TBool = false -> py_str O v = Ok s0 ->
    let s := py_lower O (py_strip s0) in
    convert_value S O v TBool =
      if zlist_eqb s S_true || zlist_eqb s [49] then Ok (VBool true)
      else if zlist_eqb s S_false || zlist_eqb s [48] then Ok (VBool false)
      else Raise ConversionErrorC.
  Proof. intros v s0 I PS s. rewrite convert_refines_spec. unfold spec_convert. now rewrite I, PS. Qed.
End Refine.
