(* C14 - for every good shape record and all oracles within their raise-sets, the model of the
   validators refines the specification on every validator tree and every value of its input
   domain; convert_value refines its specification everywhere.                                  *)
From Coq Require Import List ZArith Bool Lia ZifyBool SpecFloat.
From PV Require Import Base.Exn Model.ValidatorsBase Model.ValidatorsRegex Model.Validators Spec.ValidatorsSpec
                       Proofs.ValidatorsRegexProofs Proofs.ValidatorsPrims Proofs.ValidatorsGood.
Import ListNotations.
Open Scope Z_scope.

Notation VEC := ValidatorExceptionC.

(* ---------- induction on validator trees --------------------------------------------------------------- *)
Definition is_leaf (w : validator) : Prop :=
  match w with WForEach _ | WComposite _ => False | _ => True end.

Section ValidatorInd.
  Variable P : validator -> Prop.
  Hypothesis Hleaf : forall w, is_leaf w -> P w.
  Hypothesis Hfe : forall cs, Forall P cs -> P (WForEach cs).
  Hypothesis Hco : forall cs, Forall P cs -> P (WComposite cs).
  Fixpoint validator_nested_ind (w : validator) : P w :=
    let fix all (l : list validator) : Forall P l :=
      match l with
      | [] => Forall_nil P
      | c :: l' => Forall_cons c (validator_nested_ind c) (all l')
      end in
    match w with
    | WForEach cs => Hfe cs (all cs)
    | WComposite cs => Hco cs (all cs)
    | WMin b i => Hleaf (WMin b i) I
    | WMax b i => Hleaf (WMax b i) I
    | WMinLen n => Hleaf (WMinLen n) I
    | WMaxLen n => Hleaf (WMaxLen n) I
    | WNotEmpty s => Hleaf (WNotEmpty s) I
    | WEmail p pp => Hleaf (WEmail p pp) I
    | WIsUuid c => Hleaf (WIsUuid c) I
    | WIsEnum m i c u => Hleaf (WIsEnum m i c u) I
    | WMatch p => Hleaf (WMatch p) I
    | WIso => Hleaf WIso I
    | WUnix => Hleaf WUnix I
    end.
End ValidatorInd.

Lemma z_cmp_lt : forall a b, z_cmp CLt a b = (a <? b).
Proof. intros. unfold z_cmp, cmp_holds, Z.ltb. now destruct (a ?= b). Qed.
Lemma z_cmp_gt : forall a b, z_cmp CGt a b = (b <? a).
Proof. intros. unfold z_cmp, cmp_holds. rewrite Z.ltb_antisym. unfold Z.leb. now destruct (a ?= b). Qed.
Lemma z_cmp_le : forall a b, z_cmp CLe a b = (a <=? b).
Proof. intros. unfold z_cmp, cmp_holds, Z.leb. now destruct (a ?= b). Qed.
Lemma z_cmp_eq : forall a b, z_cmp CEq a b = (a =? b).
Proof. intros. unfold z_cmp, cmp_holds. rewrite Z.eqb_compare. now destruct (a ?= b). Qed.

Lemma zlen_nonneg : forall A (l : list A), 0 <= zlen l.
Proof. intros. unfold zlen. lia. Qed.

Lemma py_len_nonneg : forall v l, py_len v = Some l -> 0 <= l.
Proof. intros v n H; destruct v; simpl in H; try discriminate; injection H as <-; apply zlen_nonneg. Qed.

Section Refine.
  Variable S : shapes.
  Variable O : oracles.
  Hypothesis good : shapes_good S = true.
  Hypothesis oracles : oracles_ok O.
  Let G : good_props S := shapes_good_props S good.

  Local Notation validate := (validate S O).
  Local Notation spec := (spec O).

  (* The messages of the rejections are f-strings over the value (and the bound) that are evaluated BEFORE the
     exception is raised; printing an int of more than 4300 digits raises ValueError.  `fmt_ok` says that a value
     prints.  The claim for one validator: on its input domain and for printable values the call returns what the
     documented predicate demands, every rejection is a ValidatorException, and what it returns prints again
     (so that the claim carries through the chain of children of a ForEach). *)
  Definition meets (w : validator) : Prop :=
    forall v, fmt_ok v = true -> spec w v <> SOut ->
      validate w v = outcome_of (spec w v) /\ (forall r, spec w v = SAccept r -> fmt_ok r = true).

  Local Notation rej := (@reject value VEC).

  (* ----- Min / Max ----- *)
  Lemma in_dom_numbers : forall d v, dom_numbers_ok d = true -> is_number v = true -> in_dom d v = true.
  Proof. intros [] [] D N; simpl in *; congruence. Qed.

  (* exact, for all numbers - including what happens when the message cannot be printed *)
  Lemma min_sem : forall b incl v x y, num_view v = Some x -> num_view b = Some y ->
    validate (WMin b incl) v =
    if min_ref incl (xcmp x y) then rej (tests_fmt (s_min_tests S) incl (xcmp x y)) v b else Ok v.
  Proof.
    intros b incl v x y Vx Vy. simpl. unfold bound_validate.
    rewrite in_dom_numbers; [| apply (g_min_dom S G) | destruct v; simpl in Vx; try discriminate; reflexivity].
    simpl. rewrite (bound_tests_sem _ _ _ _ _ x y Vx Vy), (tests_equiv_sound _ _ (g_min S G)), (g_vexc S G).
    reflexivity.
  Qed.

  Lemma max_sem : forall b incl v x y, num_view v = Some x -> num_view b = Some y ->
    validate (WMax b incl) v =
    if max_ref incl (xcmp x y) then rej (tests_fmt (s_max_tests S) incl (xcmp x y)) v b else Ok v.
  Proof.
    intros b incl v x y Vx Vy. simpl. unfold bound_validate.
    rewrite in_dom_numbers; [| apply (g_max_dom S G) | destruct v; simpl in Vx; try discriminate; reflexivity].
    simpl. rewrite (bound_tests_sem _ _ _ _ _ x y Vx Vy), (tests_equiv_sound _ _ (g_max S G)), (g_vexc S G).
    reflexivity.
  Qed.

  (* ALL numbers (ints, bools, every float incl. +-inf and NaN): accepted (unchanged) exactly when value >= bound,
     resp. >; a rejection is a ValidatorException unless its message cannot be printed, then it is a ValueError *)
  Lemma min_exact_full : forall b incl v, is_number v = true -> is_number b = true ->
    validate (WMin b incl) v = (if sat_min b incl v then Ok v else Raise VEC) \/
    (sat_min b incl v = false /\ fmt_ok v && fmt_ok b = false /\ validate (WMin b incl) v = Raise ValueErrorC).
  Proof.
    intros b incl v Nv Nb.
    destruct (number_view v Nv) as [x Vx]. destruct (number_view b Nb) as [y Vy].
    rewrite (min_sem b incl v x y Vx Vy), (sat_min_cmp v b x y incl Vx Vy).
    destruct (min_ref incl (xcmp x y)); simpl; [|left; reflexivity].
    destruct (fmt_ok v) eqn:Fv, (fmt_ok b) eqn:Fb; simpl;
      try (left; now apply reject_ok);
      destruct (reject_cases value VEC (tests_fmt (s_min_tests S) incl (xcmp x y)) v b) as [R|R]; rewrite R; auto.
  Qed.

  Lemma min_exact : forall b incl v, is_number v = true -> is_number b = true -> fmt_ok v = true -> fmt_ok b = true ->
    validate (WMin b incl) v = if sat_min b incl v then Ok v else Raise VEC.
  Proof.
    intros b incl v Nv Nb Fv Fb.
    destruct (number_view v Nv) as [x Vx]. destruct (number_view b Nb) as [y Vy].
    rewrite (min_sem b incl v x y Vx Vy), (sat_min_cmp v b x y incl Vx Vy), (reject_ok _ _ _ _ _ Fv Fb).
    now destruct (min_ref incl (xcmp x y)).
  Qed.

  Lemma max_exact : forall b incl v, is_number v = true -> is_number b = true -> fmt_ok v = true -> fmt_ok b = true ->
    validate (WMax b incl) v = if sat_max b incl v then Ok v else Raise VEC.
  Proof.
    intros b incl v Nv Nb Fv Fb.
    destruct (number_view v Nv) as [x Vx]. destruct (number_view b Nb) as [y Vy].
    rewrite (max_sem b incl v x y Vx Vy), (sat_max_cmp v b x y incl Vx Vy), (reject_ok _ _ _ _ _ Fv Fb).
    now destruct (max_ref incl (xcmp x y)).
  Qed.

  (* NaN (as value or as bound) is rejected by every Min and every Max *)
  Lemma minmax_nan_rejected : forall b incl v, is_number v = true -> is_number b = true -> fmt_ok v = true -> fmt_ok b = true ->
    is_nan v || is_nan b = true ->
    validate (WMin b incl) v = Raise VEC /\ validate (WMax b incl) v = Raise VEC.
  Proof.
    intros b incl v Nv Nb Fv Fb A. rewrite (min_exact b incl v Nv Nb Fv Fb), (max_exact b incl v Nv Nb Fv Fb).
    destruct (sat_nan b incl v A) as [-> ->]. split; reflexivity.
  Qed.

  Lemma meets_min : forall b incl, fmt_ok b = true -> meets (WMin b incl).
  Proof.
    intros b incl Fb v Fv Hs. cbn [ValidatorsSpec.spec] in *.
    destruct (is_number v && is_number b) eqn:N; [|congruence]. apply andb_true_iff in N as [Nv Nb].
    rewrite (min_exact b incl v Nv Nb Fv Fb). destruct (sat_min b incl v); split; try reflexivity; intros r E; congruence.
  Qed.

  Lemma meets_max : forall b incl, fmt_ok b = true -> meets (WMax b incl).
  Proof.
    intros b incl Fb v Fv Hs. cbn [ValidatorsSpec.spec] in *.
    destruct (is_number v && is_number b) eqn:N; [|congruence]. apply andb_true_iff in N as [Nv Nb].
    rewrite (max_exact b incl v Nv Nb Fv Fb). destruct (sat_max b incl v); split; try reflexivity; intros r E; congruence.
  Qed.

  (* ----- MinLength / MaxLength: every printable value, every limit ----- *)
  Lemma in_dom_sized : forall v, in_dom DomSized v = match py_len v with Some _ => true | None => false end.
  Proof. reflexivity. Qed.

  Lemma minlen_exact : forall n v, fmt_ok v = true ->
    validate (WMinLen n) v = match py_len v with Some l => if n <=? l then Ok v else Raise VEC | None => Raise VEC end.
  Proof.
    intros n v Fv. simpl. unfold length_validate. rewrite (g_minlen_dom S G), (g_minlen_op S G), (g_vexc S G), in_dom_sized.
    rewrite !(reject_ok _ _ _ _ _ Fv (eq_refl : fmt_ok VNone = true)).
    destruct (py_len v) as [l|]; cbn [negb]; [|reflexivity]. rewrite z_cmp_lt.
    destruct (l <? n) eqn:E, (n <=? l) eqn:F; try reflexivity; lia.
  Qed.

  Lemma maxlen_exact : forall n v, fmt_ok v = true ->
    validate (WMaxLen n) v = match py_len v with Some l => if l <=? n then Ok v else Raise VEC | None => Raise VEC end.
  Proof.
    intros n v Fv. simpl. unfold length_validate. rewrite (g_maxlen_dom S G), (g_maxlen_op S G), (g_vexc S G), in_dom_sized.
    rewrite !(reject_ok _ _ _ _ _ Fv (eq_refl : fmt_ok VNone = true)).
    destruct (py_len v) as [l|]; cbn [negb]; [|reflexivity]. rewrite z_cmp_gt.
    destruct (n <? l) eqn:E, (l <=? n) eqn:F; try reflexivity; lia.
  Qed.

  Lemma meets_minlen : forall n, meets (WMinLen n).
  Proof.
    intros n v Fv _. rewrite (minlen_exact n v Fv). simpl. destruct (py_len v) as [l|]; [destruct (n <=? l)|];
      split; try reflexivity; intros r E; congruence.
  Qed.
  Lemma meets_maxlen : forall n, meets (WMaxLen n).
  Proof.
    intros n v Fv _. rewrite (maxlen_exact n v Fv). simpl. destruct (py_len v) as [l|]; [destruct (l <=? n)|];
      split; try reflexivity; intros r E; congruence.
  Qed.

  (* ----- NotEmpty ----- *)
  Lemma empty_test_sem : forall op lit l, empty_test op lit = true -> 0 <= l -> z_cmp op l lit = (l =? 0).
  Proof.
    intros [] lit l H L; simpl in H; try discriminate.
    - rewrite z_cmp_lt. lia.
    - rewrite z_cmp_le. lia.
    - rewrite z_cmp_eq. lia.
  Qed.

  Lemma notempty_str : forall strip s,
    validate (WNotEmpty strip) (VStr s) = if all_ws s then Raise VEC else Ok (if strip then VStr (py_strip s) else VStr s).
  Proof.
    intros strip s. simpl. pose proof (g_notempty S G) as N. unfold notempty_good in N.
    repeat (apply andb_true_iff in N as [N ?]). rewrite N, (g_vexc S G), all_ws_strip.
    rewrite (reject_ok value _ _ (VStr s) VNone eq_refl eq_refl).
    destruct (all_ws s); [reflexivity|]. now destruct (ne_return (s_notempty S)).
  Qed.

  Lemma notempty_other : forall strip v, is_str v = false -> fmt_ok v = true ->
    validate (WNotEmpty strip) v =
    if is_sequence v then match py_len v with Some l => if l =? 0 then Raise VEC else Ok v | None => Raise VEC end
    else Raise VEC.
  Proof.
    intros strip v NS Fv. pose proof (g_notempty S G) as N. unfold notempty_good in N.
    repeat (apply andb_true_iff in N as [N ?]).
    match goal with X : domkind_eqb _ _ = true |- _ => apply domkind_eqb_eq in X; rename X into D end.
    match goal with X : empty_test _ _ = true |- _ => rename X into E end.
    assert (R : validate (WNotEmpty strip) v =
                if in_dom (ne_seq_dom (s_notempty S)) v then
                  match py_len v with
                  | None => Raise TypeErrorC
                  | Some l => if z_cmp (ne_seq_op (s_notempty S)) l (ne_seq_lit (s_notempty S))
                              then reject (s_vexc S) (ne_fmt_seq (s_notempty S)) v VNone else Ok v
                  end
                else reject (s_vexc S) (ne_fmt_else (s_notempty S)) v VNone).
    { destruct v; try reflexivity. discriminate. }
    rewrite R, D, (g_vexc S G), !(reject_ok _ _ _ _ _ Fv (eq_refl : fmt_ok VNone = true)).
    simpl in_dom. destruct (is_sequence v) eqn:Q; [|reflexivity].
    destruct (py_len v) as [l|] eqn:L.
    - now rewrite (empty_test_sem _ _ l E (py_len_nonneg v l L)).
    - destruct v; simpl in Q, L; discriminate.
  Qed.

  Lemma meets_notempty : forall strip, meets (WNotEmpty strip).
  Proof.
    intros strip v Fv _. destruct (is_str v) eqn:IS.
    - destruct v; try discriminate. rewrite notempty_str. simpl.
      destruct (all_ws s); split; try reflexivity; intros r E; try discriminate. injection E as <-. now destruct strip.
    - rewrite (notempty_other strip v IS Fv).
      destruct v; try discriminate; simpl; try (split; [reflexivity | intros r E; discriminate]);
        match goal with |- context [?l =? 0] => destruct (l =? 0) end;
        split; try reflexivity; intros r E; try discriminate; injection E as <-; exact Fv.
  Qed.

  (* ----- Email ----- *)
  Lemma email_default_str : forall pp s,
    validate (WEmail None pp) (VStr s) = if email_predb s then Ok (pp_apply pp s) else Raise VEC.
  Proof.
    intros pp s. simpl. rewrite (g_email_mode S G), (g_vexc S G). simpl re_test.
    now rewrite (g_email_re S G), (reject_ok value _ _ (VStr s) VNone eq_refl eq_refl).
  Qed.

  Lemma pp_apply_fmt : forall pp s, fmt_ok (pp_apply pp s) = true.
  Proof. intros pp s0; destruct pp; reflexivity. Qed.

  Lemma meets_email : forall pat pp, meets (WEmail pat pp).
  Proof.
    intros pat pp v _ Hs. destruct v; simpl in Hs; try congruence.
    destruct pat as [r|].
    - simpl. rewrite (g_email_mode S G), (g_vexc S G), (reject_ok value _ _ (VStr s) VNone eq_refl eq_refl). simpl.
      destruct (re_fullmatch r s); split; try reflexivity; intros x E; try discriminate. injection E as <-. apply pp_apply_fmt.
    - rewrite email_default_str. simpl.
      destruct (email_predb s); split; try reflexivity; intros x E; try discriminate. injection E as <-. apply pp_apply_fmt.
  Qed.

  (* ----- IsUuid (the parsing itself is the stdlib oracle on both sides: proved are the exception class of the
     rejection and the convert flag) ----- *)
  Lemma meets_uuid : forall convert, meets (WIsUuid convert).
  Proof.
    intros convert v Fv Hs. destruct v; simpl in Hs; try congruence.
    simpl. unfold uuid_validate. change (py_str O (VStr s)) with (@Ok str s). cbn [bind]. pose proof (ok_uuid O oracles s) as R.
    pose proof (ok_uuid_fmt O oracles s) as RF.
    destruct (o_uuid O s) as [u|e].
    - split; [reflexivity|]. intros r E. injection E as <-. destruct convert; [now apply RF | exact Fv].
    - simpl in R. rewrite (handle_rv _ _ _ _ _ (g_uuid S G) R), (g_vexc S G).
      rewrite (reject_ok value _ _ (VStr s) VNone eq_refl eq_refl). split; [reflexivity | intros r E; discriminate].
  Qed.

  (* ----- IsEnum ----- *)
  Lemma enum_lookup_member : forall ms v,
    enum_lookup ms v = match member_of ms v with Some m => Ok m | None => Raise ValueErrorC end.
  Proof.
    intros ms v. unfold enum_lookup, member_of.
    destruct v; try (destruct (find_index _ ms 0); reflexivity).
    destruct payload as [|i [|? ?]]; try (destruct (find_index _ ms 0); reflexivity).
    now destruct ((kind =? K_ENUM) && (0 <=? i) && (i <? zlen ms)).
  Qed.

  Lemma member_of_fmt : forall ms v m, member_of ms v = Some m -> fmt_ok m = true.
  Proof.
    intros ms v m. unfold member_of.
    assert (X : forall o, option_map (fun i => VOpq K_ENUM [i]) o = Some m -> fmt_ok m = true).
    { intros [i|] E; simpl in E; [injection E as <-; reflexivity | discriminate]. }
    destruct v; try apply X.
    destruct payload as [|i [|? ?]]; try apply X.
    destruct ((kind =? K_ENUM) && (0 <=? i) && (i <? zlen ms)); intro E; [injection E as <-; reflexivity | discriminate].
  Qed.

  Lemma within_VE : within ValueErrorC [ValueErrorC; TypeErrorC] = true. Proof. reflexivity. Qed.
  Lemma within_TE : within TypeErrorC [ValueErrorC; TypeErrorC] = true. Proof. reflexivity. Qed.
  Lemma incl_VE : incl [ValueErrorC] [ValueErrorC; TypeErrorC].
  Proof. intros x [<-|[]]. left; reflexivity. Qed.

  Lemma enum_handle : forall v1 e, fmt_ok v1 = true -> within e [ValueErrorC] = true \/ e = TypeErrorC ->
    handle (@reject value (s_vexc S) (s_h_is_enum_fmt S) v1 VNone) (s_h_is_enum S) e = Raise VEC.
  Proof.
    intros v1 e F [W| ->].
    - rewrite (handle_rv _ _ _ _ _ (g_enum S G) (within_more _ _ _ W incl_VE)).
      now rewrite (g_vexc S G), (reject_ok _ _ _ _ _ F (eq_refl : fmt_ok VNone = true)).
    - rewrite (handle_rv _ _ _ _ _ (g_enum S G) within_TE).
      now rewrite (g_vexc S G), (reject_ok _ _ _ _ _ F (eq_refl : fmt_ok VNone = true)).
  Qed.

  (* int(value) of the model (behind the float guard) against "the integer the value denotes" of the specification *)
  Lemma enum_int_value_denoted : forall ms v,
    match enum_int_value S O ms v with
    | Ok z => int_denoted O ms v = Some z
    | Raise e => int_denoted O ms v = None /\ (within e [ValueErrorC] = true \/ e = TypeErrorC)
    end.
  Proof.
    intros ms v.
    destruct v as [ | b | z | f | s | s | l | l | ks vs | n | kind payload];
      cbn [enum_int_value enum_int_arg py_int int_denoted].
    - auto.
    - auto.
    - auto.
    - (* float: whole numbers are truncated exactly, everything else (fractions, inf, nan) is a ValueError *)
      rewrite (g_enum_guard S G). cbn [andb].
      destruct (float_is_integral f) eqn:FI; cbn [negb].
      + destruct f as [s| s | | s m e]; try discriminate; cbn [int_of_float]; reflexivity.
      + split; [reflexivity | left; reflexivity].
    - (* str *) unfold py_int_of_str. destruct (int_of_canonical s) as [[z|e]|] eqn:C.
      + reflexivity.
      + unfold int_of_canonical in C. destruct (parse_dec (num_strip s)); [|discriminate].
        destruct (over_limit (num_strip s)); injection C as C; [|discriminate]. subst e. auto.
      + pose proof (ok_int O oracles s) as R. destruct (o_int_of_str O s); simpl in *; auto.
    - (* bytes *) pose proof (ok_intb O oracles s) as R. destruct (o_int_of_bytes O s); simpl in *; auto.
    - auto.
    - auto.
    - auto.
    - auto.
    - (* members *)
      destruct payload as [|i [|? ?]]; auto.
      destruct (kind =? K_ENUM); cbn [andb]; auto.
      destruct (nth_error ms (Z.to_nat i)) as [[]|]; destruct (0 <=? i); auto.
  Qed.

  Lemma meets_enum : forall ms ie convert upper, meets (WIsEnum ms ie convert upper).
  Proof.
    intros ms ie convert upper v Fv _.
    cbn [ValidatorsSpec.spec Validators.validate]. unfold enum_validate.
    set (v1 := match v with VStr s => if upper then VStr (py_upper O s) else v | _ => v end).
    assert (F1 : fmt_ok v1 = true). { subst v1. destruct v; try exact Fv. now destruct upper. }
    assert (RES : forall m r, member_of ms m = Some r -> forall x,
              SAccept (if convert then r else v1) = SAccept x -> fmt_ok x = true).
    { intros m r M x E. injection E as <-. destruct convert; [now apply (member_of_fmt ms m) | exact F1]. }
    destruct ie.
    - pose proof (enum_int_value_denoted ms v1) as D.
      destruct (enum_int_value S O ms v1) as [z|e].
      + rewrite D, enum_lookup_member. destruct (member_of ms (VInt z)) eqn:M.
        * split; [reflexivity | now apply (RES (VInt z))].
        * split; [apply enum_handle; auto | intros r E; discriminate].
      + destruct D as [D W]. rewrite D. split; [now apply enum_handle | intros r E; discriminate].
    - rewrite enum_lookup_member. destruct (member_of ms v1) eqn:M.
      + split; [reflexivity | now apply (RES v1)].
      + split; [apply enum_handle; auto | intros r E; discriminate].
  Qed.

  (* ----- MatchPattern, DatetimeIsoFormat, DateTimeUnixTimestamp ----- *)
  Lemma match_str : forall pat s, validate (WMatch pat) (VStr s) = if re_search pat s then Ok (VStr s) else Raise VEC.
  Proof.
    intros. simpl. unfold match_validate. change (py_str O (VStr s)) with (@Ok str s). cbv iota.
    now rewrite (g_match_mode S G), (g_vexc S G), (reject_ok value _ _ (VStr s) VNone eq_refl eq_refl).
  Qed.

  Lemma meets_match : forall pat, meets (WMatch pat).
  Proof.
    intros pat v Fv Hs. destruct v; simpl in Hs; try congruence. rewrite match_str. simpl.
    destruct (re_search pat s); split; try reflexivity; intros r E; try discriminate. now injection E as <-.
  Qed.

  (* fromisoformat is the stdlib oracle on both sides: proved is the exception class of the rejection *)
  Lemma meets_iso : meets WIso.
  Proof.
    intros v Fv _. simpl. unfold iso_validate. pose proof (ok_iso O oracles v) as R. pose proof (ok_iso_fmt O oracles v) as RF.
    destruct (o_fromiso O v) as [d|e].
    - split; [reflexivity|]. intros r E. injection E as <-. now apply RF.
    - simpl in R. rewrite (handle_rv _ _ _ _ _ (g_iso S G) R), (g_vexc S G), (reject_ok _ _ _ _ _ Fv (eq_refl : fmt_ok VNone = true)).
      split; [reflexivity | intros r E; discriminate].
  Qed.

  Lemma epoch_step : forall v f, fmt_ok v = true ->
    match o_epoch_plus O f with Ok d => Ok d | Raise e => handle (reject VEC (s_h_unix_add_fmt S) v VNone) (s_h_unix_add S) e end =
    outcome_of (match o_epoch_plus O f with Ok d => SAccept d | Raise _ => SReject end) /\
    (forall r, match o_epoch_plus O f with Ok d => SAccept d | Raise _ => SReject end = SAccept r -> fmt_ok r = true).
  Proof.
    intros v f Fv. pose proof (ok_epoch O oracles f) as R. pose proof (ok_epoch_fmt O oracles f) as RF.
    destruct (o_epoch_plus O f) as [d|e].
    - split; [reflexivity|]. intros r E. injection E as <-. now apply RF.
    - simpl in R. rewrite (handle_rv _ _ _ _ _ (g_unix_add S G) R), (reject_ok _ _ _ _ _ Fv (eq_refl : fmt_ok VNone = true)).
      split; [reflexivity | intros r E; discriminate].
  Qed.

  Lemma within_OE : within OverflowErrorC [ValueErrorC; OverflowErrorC] = true. Proof. reflexivity. Qed.
  Lemma incl_VE_unix : incl [ValueErrorC] [ValueErrorC; OverflowErrorC].
  Proof. intros x [<-|[]]. left; reflexivity. Qed.

  Lemma float_of_Z_raises : forall z e, float_of_Z z = Raise e -> e = OverflowErrorC.
  Proof.
    intros z e. unfold float_of_Z. destruct (z =? 0); [discriminate|]. cbv zeta.
    destruct (Z.log2 (Z.abs z) + 1 <=? 53); [discriminate|].
    match goal with |- (if ?c then _ else _) = _ -> _ => destruct c end; [|discriminate].
    intro H. now injection H as <-.
  Qed.

  Lemma meets_unix : meets WUnix.
  Proof.
    intros v Fv _. simpl. unfold unix_validate.
    rewrite (g_unix_dom S G), (g_vexc S G).
    assert (RJ : forall f, @reject value VEC f v VNone = Raise VEC)
      by (intro f; apply (reject_ok _ _ _ _ _ Fv (eq_refl : fmt_ok VNone = true))).
    destruct v; simpl; try (rewrite RJ; split; [reflexivity | intros r E; discriminate]).
    - now apply epoch_step.
    - destruct (float_of_Z z) as [f|e] eqn:F; [now apply epoch_step|].
      apply float_of_Z_raises in F as ->. rewrite (handle_rv _ _ _ _ _ (g_unix_float S G) within_OE), RJ.
      split; [reflexivity | intros r E; discriminate].
    - now apply epoch_step.
    - pose proof (ok_float O oracles s) as R. destruct (o_float_of_str O s) as [f|e]; [now apply epoch_step|].
      cbn [raises_within] in R. rewrite (handle_rv _ _ _ _ _ (g_unix_float S G) (within_more _ _ _ R incl_VE_unix)), RJ.
      split; [reflexivity | intros r E; discriminate].
  Qed.

  Lemma meets_leaf : forall w, is_leaf w -> w_fmt_ok w = true -> meets w.
  Proof.
    intros [] L W; try contradiction.
    - now apply meets_min. - now apply meets_max. - apply meets_minlen. - apply meets_maxlen. - apply meets_notempty.
    - apply meets_email. - apply meets_uuid. - apply meets_enum. - apply meets_match. - apply meets_iso. - apply meets_unix.
  Qed.

  (* ----- Composite: by induction on the children ----- *)
  Lemma composite_children : forall cs v, Forall meets cs -> fmt_ok v = true ->
    all_accept spec cs v <> SOut ->
    run_children validate false cs v = match all_accept spec cs v with SAccept _ => Ok v | _ => Raise VEC end.
  Proof.
    induction cs as [|c cs IH]; intros v F Fv Hs; simpl in *; [reflexivity|].
    inversion F as [|? ? Mc Fcs]; subst.
    assert (Sc : spec c v <> SOut) by (destruct (spec c v); congruence).
    destruct (Mc v Fv Sc) as [-> _]. destruct (spec c v) as [| |r]; simpl; try reflexivity; try congruence.
    now apply IH.
  Qed.

  Lemma all_accept_value : forall l x r, all_accept spec l x = SAccept r -> r = x.
  Proof. induction l as [|a l IHl]; simpl; intros x r0 H; [congruence|]. destruct (spec a x); try discriminate. eauto. Qed.

  Lemma meets_composite : forall cs, Forall meets cs -> meets (WComposite cs).
  Proof.
    intros cs F v Fv Hs. cbn [ValidatorsSpec.spec Validators.validate] in *.
    rewrite (g_co_threads S G), (g_co_ret S G), (composite_children cs v F Fv Hs).
    destruct (all_accept spec cs v) eqn:E.
    - congruence.
    - split; [reflexivity | intros x Ex; discriminate].
    - rewrite (all_accept_value _ _ _ E). split; [reflexivity | intros x Ex; now injection Ex as <-].
  Qed.

  (* ----- ForEach: by induction on the children (one item) and on the items ----- *)
  Lemma foreach_pipe : forall cs it, Forall meets cs -> fmt_ok it = true ->
    pipe spec cs it <> SOut ->
    run_children validate true cs it = outcome_of (pipe spec cs it) /\
    (forall r, pipe spec cs it = SAccept r -> fmt_ok r = true).
  Proof.
    induction cs as [|c cs IH]; intros it F Fi Hs; simpl in *.
    - split; [reflexivity|]. intros r E. now injection E as <-.
    - inversion F as [|? ? Mc Fcs]; subst.
      assert (Sc : spec c it <> SOut) by (destruct (spec c it); congruence).
      destruct (Mc it Fi Sc) as [-> Fr]. destruct (spec c it) as [| |r]; simpl.
      + congruence.
      + split; [reflexivity | intros x E; discriminate].
      + apply IH; auto.
  Qed.

  Lemma each_accept_list : forall one items r, each_accept one items = SAccept r -> exists rs, r = VList rs.
  Proof.
    induction items as [|it items IH]; simpl; intros r H.
    - injection H as <-. eauto.
    - destruct (one it); try discriminate. destruct (each_accept one items) as [| |[]]; try discriminate.
      injection H as <-. eauto.
  Qed.

  Lemma foreach_items : forall cs items, Forall meets cs -> forallb fmt_ok items = true ->
    each_accept (pipe spec cs) items <> SOut ->
    match each_item (run_children validate true cs) false items with Ok rs => Ok (VList rs) | Raise e => Raise e end
    = outcome_of (each_accept (pipe spec cs) items) /\
    (forall r, each_accept (pipe spec cs) items = SAccept r -> fmt_ok r = true).
  Proof.
    intros cs items F. induction items as [|it items IH]; intros Fi Hs; simpl in *.
    - split; [reflexivity|]. intros r E. now injection E as <-.
    - apply andb_true_iff in Fi as [Fit Fis].
      assert (Si : pipe spec cs it <> SOut) by (destruct (pipe spec cs it); congruence).
      destruct (foreach_pipe cs it F Fit Si) as [-> Fr].
      destruct (pipe spec cs it) as [| |r]; simpl.
      + congruence.
      + split; [reflexivity | intros x E; discriminate].
      + assert (Sr : each_accept (pipe spec cs) items <> SOut).
        { destruct (each_accept (pipe spec cs) items) as [| |[]]; congruence. }
        destruct (IH Fis Sr) as [IH1 IH2].
        destruct (each_accept (pipe spec cs) items) as [| |r'] eqn:E.
        * congruence.
        * simpl in *. destruct (each_item _ false items); [discriminate|].
          split; [assumption | intros x Ex; discriminate].
        * destruct (each_accept_list _ _ _ E) as [rs ->]. simpl in *.
          destruct (each_item _ false items); [|discriminate]. injection IH1 as ->.
          split; [reflexivity|]. intros x Ex. injection Ex as <-.
          rewrite fmt_ok_list. simpl. rewrite (Fr r eq_refl). simpl. rewrite <- fmt_ok_list. now apply IH2.
  Qed.

  Lemma meets_foreach : forall cs, Forall meets cs -> meets (WForEach cs).
  Proof.
    intros cs F v Fv Hs. cbn [ValidatorsSpec.spec Validators.validate] in *.
    rewrite (g_fe_dom S G), (g_fe_threads S G), (g_fe_ret S G), (g_vexc S G). simpl in_dom.
    destruct (iter_items v) as [items|] eqn:I; simpl.
    - apply foreach_items; auto. now apply (iter_items_fmt v).
    - rewrite (reject_ok _ _ _ _ _ Fv (eq_refl : fmt_ok VNone = true)). split; [reflexivity | intros r E; discriminate].
  Qed.

  (* for every validator tree whose bounds print, and every printable value *)
  Theorem validate_refines_spec : forall w, w_fmt_ok w = true -> meets w.
  Proof.
    apply (validator_nested_ind (fun w => w_fmt_ok w = true -> meets w)).
    - intros w L W. now apply meets_leaf.
    - intros cs F W. apply meets_foreach. rewrite w_fmt_ok_foreach in W.
      rewrite Forall_forall in *. intros c Ic. apply F; [assumption|].
      rewrite forallb_forall in W. now apply W.
    - intros cs F W. apply meets_composite. rewrite w_fmt_ok_composite in W.
      rewrite Forall_forall in *. intros c Ic. apply F; [assumption|].
      rewrite forallb_forall in W. now apply W.
  Qed.

  (* validate_param differs from validate only by the label on the exception *)
  Theorem validate_param_same : forall w v, validate_param S O w v = validate w v.
  Proof.
    intros w v. unfold validate_param. destruct (validate w v) as [r|e]; [reflexivity|].
    apply handle_reraise. apply (g_param S G).
  Qed.

  (* ----- Composite / ForEach directly on the model (all values, printable or not) ----- *)
  Lemma composite_ok_iff : forall cs v,
    validate (WComposite cs) v = Ok v <-> Forall (fun c => exists r, validate c v = Ok r) cs.
  Proof.
    intros cs v. cbn [Validators.validate]. rewrite (g_co_threads S G), (g_co_ret S G).
    induction cs as [|c cs IH]; simpl.
    - split; [constructor | reflexivity].
    - destruct (validate c v) as [r|e] eqn:E.
      + rewrite IH. split; [intro H; constructor; eauto | intro H; now inversion H].
      + split; [discriminate|]. intro H. inversion H as [|? ? [r Hr] _]. congruence.
  Qed.

  Lemma composite_result : forall cs v, (exists e, validate (WComposite cs) v = Raise e) \/ validate (WComposite cs) v = Ok v.
  Proof.
    intros cs v. cbn [Validators.validate]. rewrite (g_co_ret S G).
    destruct (run_children _ _ cs v); eauto.
  Qed.

  (* a rejection of Composite is the outcome of its first rejecting child *)
  Lemma composite_first_failure : forall cs v e, validate (WComposite cs) v = Raise e ->
    exists pre c post, cs = pre ++ c :: post /\ validate c v = Raise e /\ Forall (fun c' => exists r, validate c' v = Ok r) pre.
  Proof.
    intros cs v e. cbn [Validators.validate]. rewrite (g_co_threads S G), (g_co_ret S G).
    induction cs as [|c cs IH]; simpl; [discriminate|].
    destruct (validate c v) as [r|e'] eqn:E.
    - intro H. destruct (IH H) as (pre & c' & post & -> & Hc & Hp).
      exists (c :: pre), c', post. repeat split; auto. constructor; eauto.
    - intro H. injection H as ->. exists [], c, cs. repeat split; auto.
  Qed.

  Lemma foreach_ok_iff : forall cs items rs,
    validate (WForEach cs) (VList items) = Ok (VList rs) <->
    Forall2 (fun it r => run_children validate true cs it = Ok r) items rs.
  Proof.
    intros cs items rs. cbn [Validators.validate]. rewrite (g_fe_dom S G), (g_fe_threads S G), (g_fe_ret S G).
    simpl in_dom. simpl iter_items. cbn [negb].
    revert rs. induction items as [|it items IH]; intro rs; simpl.
    - split; [intro H; injection H as <-; constructor | intro H; now inversion H].
    - destruct (run_children validate true cs it) as [r|e] eqn:E.
      + specialize (IH (tl rs)). destruct (each_item _ false items) as [rs'|e'].
        * split.
          -- intro H. injection H as <-. constructor; [assumption|]. apply IH. reflexivity.
          -- intro H. inversion H as [|? r0 ? rs0 H1 H2]; subst. simpl in IH.
             apply IH in H2. injection H2 as ->. congruence.
        * split; [discriminate|]. intro H. inversion H as [|? r0 ? rs0 H1 H2]; subst. simpl in IH.
          apply IH in H2. discriminate.
      + split; [discriminate|]. intro H. inversion H; subst. congruence.
  Qed.

  (* ---------- convert_value ---------------------------------------------------------------------- *)
  Lemma normalise_ref : forall v, normalise O (s_cv_norm S) v =
    match py_str O v with Ok s => Ok (py_lower O (py_strip s)) | Raise e => Raise e end.
  Proof. intro v. unfold normalise. rewrite (g_norm S G). reflexivity. Qed.

  (* str(v) raises nothing but ValueError (an int beyond the digit limit) *)
  Lemma py_str_raises : forall v e, py_str O v = Raise e -> e = ValueErrorC.
  Proof.
    intros v e. unfold py_str. destruct (fmt_ok v); cbn [negb].
    - destruct v; try discriminate. destruct b; discriminate.
    - intro H. now injection H as <-.
  Qed.

  Lemma py_str_int : forall z s, py_str O (VInt z) = Ok s -> str_of_int z = Ok s.
  Proof.
    intros z s. unfold py_str. cbn [fmt_ok]. unfold int_fmt_ok.
    destruct (str_of_int_cases z) as [E|E]; rewrite E; cbn [negb]; [intro H; now injection H as <- | discriminate].
  Qed.

  Lemma within_VE1 : within ValueErrorC [ValueErrorC] = true. Proof. reflexivity. Qed.

  Theorem convert_refines_spec : forall v t, convert_value S O v t = spec_convert O v t.
  Proof.
    intros v t. unfold convert_value, spec_convert. destruct (isinstance_t v t); [reflexivity|].
    rewrite normalise_ref. destruct (py_str O v) as [s0|e] eqn:PS.
    2:{ apply py_str_raises in PS as ->. now rewrite (handle_raise _ _ _ _ _ _ (g_convert_norm S G) within_VE1). }
    set (s := py_lower O (py_strip s0)).
    destruct t; try reflexivity.
    - rewrite (g_true S G), (g_false S G), (g_bool_else S G). unfold str_in. simpl existsb.
      now rewrite !orb_false_r.
    - destruct (py_int_of_str O s) as [z|e] eqn:PI; [reflexivity|].
      assert (W : within e [ValueErrorC] = true).
      { unfold py_int_of_str, int_of_canonical in PI. destruct (parse_dec (num_strip s)).
        - destruct (over_limit (num_strip s)); [|discriminate]. now injection PI as <-.
        - pose proof (ok_int O oracles s) as R. rewrite PI in R. exact R. }
      now rewrite (handle_raise _ _ _ _ _ _ (g_convert S G) W).
    - pose proof (ok_float O oracles s) as R. destruct (o_float_of_str O s) as [f|e]; [reflexivity|]. simpl in R.
      now rewrite (handle_raise _ _ _ _ _ _ (g_convert S G) R).
  Qed.

  (* an instance of the requested type, or ConversionError - for any input *)
  Theorem convert_typed : forall v t,
    match convert_value S O v t with Ok r => isinstance_t r t = true | Raise e => e = ConversionErrorC end.
  Proof.
    intros v t. rewrite convert_refines_spec. unfold spec_convert.
    destruct (isinstance_t v t) eqn:I; [assumption|].
    destruct (py_str O v) as [s0|e]; [|reflexivity].
    set (s := py_lower O (py_strip s0)).
    destruct t; simpl; try reflexivity.
    - destruct (zlist_eqb s S_true || zlist_eqb s [49]); [reflexivity|].
      destruct (zlist_eqb s S_false || zlist_eqb s [48]); reflexivity.
    - now destruct (py_int_of_str O s).
    - now destruct (o_float_of_str O s).
  Qed.

  (* convert_value inverts str() on ints: whenever str(z) exists (at most 4300 digits), it is read back as z *)
  Theorem convert_inverts_str_int : forall z s, py_str O (VInt z) = Ok s -> convert_value S O (VStr s) TInt = Ok (VInt z).
  Proof.
    intros z s H. apply py_str_int in H.
    destruct (str_of_int_cases z) as [E|E]; rewrite E in H; [|discriminate]. injection H as <-.
    rewrite convert_refines_spec. unfold spec_convert. simpl isinstance_t.
    change (py_str O (VStr (show_Z z))) with (@Ok str (show_Z z)). cbv iota beta zeta.
    unfold py_lower. rewrite show_Z_strip, show_Z_ascii, show_Z_lower, (int_of_show O z _ E). reflexivity.
  Qed.

  (* ... on floats, given what CPython's repr guarantees (it is a Section-variable oracle here): str(f) carries no
     surrounding whitespace and no upper-case letter, and float() reads it back as f (shortest round-trip repr) *)
  Theorem convert_inverts_str_float : forall f s, py_str O (VFloat f) = Ok s ->
    py_strip s = s -> py_lower O s = s -> o_float_of_str O s = Ok f ->
    convert_value S O (VStr s) TFloat = Ok (VFloat f).
  Proof.
    intros f s _ Hs Hl Hf. rewrite convert_refines_spec. unfold spec_convert. simpl isinstance_t.
    change (py_str O (VStr s)) with (@Ok str s). cbv iota beta zeta. now rewrite Hs, Hl, Hf.
  Qed.

  (* ... and on bools *)
  Theorem convert_inverts_str_bool : forall b s, py_str O (VBool b) = Ok s -> convert_value S O (VStr s) TBool = Ok (VBool b).
  Proof. intros b s H. rewrite convert_refines_spec. destruct b; simpl in H; injection H as <-; reflexivity. Qed.

  (* the whole bool table: exactly 'true' / '1' and 'false' / '0' after strip().lower() *)
  Theorem convert_bool_table : forall v s0, isinstance_t v TBool = false -> py_str O v = Ok s0 ->
    let s := py_lower O (py_strip s0) in
    convert_value S O v TBool =
      if zlist_eqb s S_true || zlist_eqb s [49] then Ok (VBool true)
      else if zlist_eqb s S_false || zlist_eqb s [48] then Ok (VBool false)
      else Raise ConversionErrorC.
  Proof. intros v s0 I PS s. rewrite convert_refines_spec. unfold spec_convert. now rewrite I, PS. Qed.
End Refine.
