(* C13: the concrete external sources (Model/ValidateSources.v) against their specification
   (Spec/ValidateSourcesSpec.v), and the external-only-when-absent statement for declarations whose external
   Parameters are bound to such sources - several Parameters of one name included.                              *)
From Coq Require Import List Arith Bool Permutation Lia.
From PV Require Import Base.Exn Model.ValidateSem Spec.ValidateSpec Model.ValidateSources Spec.ValidateSourcesSpec
  Proofs.ValidateDict Proofs.ValidateRef Proofs.ValidateBind Proofs.ValidateGate Proofs.ValidateByName.
Import ListNotations.

(* ================= the sources ================= *)
Section SrcProofs.
Variable value : Type.
Variable hkey : name -> name.
Variable strip : value -> value.
Variable of_list : list value -> value.
Variable from_json : json_body value -> outcome value.

Notation world := (world value).
Notation src_has := (src_has value hkey).
Notation src_load := (src_load value hkey strip of_list from_json).
Notation present := (present value hkey).
Notation source_value := (source_value value hkey strip of_list).

Definition class_of (k : source_kind) : source_class :=
  match k with
  | KJson => ref_flask_json | KForm => ref_flask_form | KQuery => ref_flask_get
  | KHeader => ref_flask_header | KEnv => ref_environment
  end.

Definition source_of (k : source_kind) (key : name) (as_list catch : bool) : source :=
  {| s_cls := class_of k; s_key := key; s_list := as_list; s_catch := catch |}.

Lemma assoc_named : forall A k (d : list (name * A)), assoc_by (Nat.eqb k) d = named k d.
Proof.
  induction d as [|[k' v] d IH]; [reflexivity|]. cbn [assoc_by named]. rewrite (Nat.eqb_sym k k').
  destruct (Nat.eqb k' k); [reflexivity | assumption].
Qed.

Lemma has_key_named : forall A k (d : list (name * A)), has_key (Nat.eqb k) d = is_some (named k d).
Proof. intros. unfold has_key. now rewrite assoc_named. Qed.

Lemma assoc_header : forall k (hs : list (name * value)),
  assoc_by (fun h => Nat.eqb (hkey h) (hkey k)) hs = header_named value hkey k hs.
Proof.
  induction hs as [|[h v] hs IH]; [reflexivity|]. cbn [assoc_by header_named].
  destruct (Nat.eqb (hkey h) (hkey k)); [reflexivity | assumption].
Qed.

Lemma has_key_header : forall k (hs : list (name * value)),
  has_key (fun h => Nat.eqb (hkey h) (hkey k)) hs = is_some (header_named value hkey k hs).
Proof. intros. unfold has_key. now rewrite assoc_header. Qed.

(* has_value() is exactly "the key is present in the source" *)
Theorem has_value_is_present : forall kind (w : world) key l c,
  in_context value kind w = true ->
  src_has (source_of kind key l c) w = Ok (present kind w key).
Proof.
  intros kind w key l c H. unfold ValidateSources.src_has, src_get_dict, the_request, ValidateSourcesSpec.present, json_members.
  unfold in_context in H.
  destruct kind; cbn [source_of class_of s_cls s_key sc_has sc_get_dict ref_flask_json ref_flask_form ref_flask_get
                      ref_flask_header ref_environment];
    try (destruct (wd_request w) as [rq|]; [|discriminate H]); cbn [eval_get_dict eval_attr].
  - destruct (fr_json rq) as [[|ms]|]; cbn [dv_contains named is_some]; try reflexivity. now rewrite has_key_named.
  - cbn [dv_contains]. now rewrite has_key_named.
  - cbn [dv_contains]. now rewrite has_key_named.
  - cbn [dv_contains]. now rewrite has_key_header.
  - now rewrite has_key_named.
Qed.

(* outside a request context the Flask sources raise RuntimeError *)
Theorem has_value_outside_context : forall kind (w : world) key l c,
  in_context value kind w = false -> src_has (source_of kind key l c) w = Raise RuntimeErrorC.
Proof.
  intros kind w key l c H. unfold ValidateSources.src_has, src_get_dict, the_request.
  destruct kind; cbn in H; try discriminate H;
    cbn [source_of class_of s_cls s_key sc_has sc_get_dict ref_flask_json ref_flask_form ref_flask_get ref_flask_header];
    destruct (wd_request w); try discriminate H; reflexivity.
Qed.

(* load_value() returns the value the source holds under the key *)
Theorem load_value_is_source_value : forall kind (w : world) key l c v,
  source_value kind l w key = Some v -> src_load (source_of kind key l c) w = WOk v.
Proof.
  intros kind w key l c v H. unfold ValidateSources.src_load, src_get_dict, the_request.
  unfold ValidateSourcesSpec.source_value, json_members in H.
  destruct kind; cbn [source_of class_of s_cls s_key s_list sc_load sc_get_dict ref_flask_json ref_flask_form ref_flask_get
                      ref_flask_header ref_environment];
    try (destruct (wd_request w) as [rq|]; [|discriminate H]); cbn [eval_get_dict eval_attr].
  - destruct (fr_json rq) as [[|ms]|]; cbn [named] in H; try discriminate H.
    cbn [dv_item]. now rewrite assoc_named, H.
  - cbn [dv_item]. rewrite assoc_named. destruct (named key (fr_form rq)) as [[|x xs]|]; try discriminate H. now injection H as ->.
  - unfold md_getlist. rewrite assoc_named. destruct (named key (fr_args rq)) as [xs|]; [|discriminate H].
    destruct l; [now injection H as -> |]. destruct xs as [|x xs]; [discriminate H|]. now injection H as ->.
  - cbn [dv_item]. now rewrite assoc_header, H.
  - rewrite assoc_named. destruct (named key (wd_environ w)) as [raw|]; [|discriminate H]. now injection H as <-.
Qed.

Lemma md_ok_named : forall (d : mdict value) k xs, md_ok value d = true -> named k d = Some xs -> xs <> [].
Proof.
  induction d as [|[k' ys] d IH]; intros k xs O H; [discriminate H|]. cbn [md_ok forallb snd] in O. apply andb_prop in O. destruct O as [O1 O2].
  cbn [named] in H. destruct (Nat.eqb k' k).
  - injection H as <-. destruct ys; [discriminate O1 | discriminate].
  - now apply (IH k xs).
Qed.

(* a source in which the key is present holds a value (MultiDicts as werkzeug builds them) *)
Theorem present_source_has_a_value : forall kind l (w : world) key,
  present kind w key = true -> world_ok value w = true -> exists v, source_value kind l w key = Some v.
Proof.
  intros kind l w key P O. unfold ValidateSourcesSpec.present in P. unfold ValidateSourcesSpec.source_value, world_ok in *.
  destruct kind; try (destruct (wd_request w) as [rq|]; [|discriminate P]).
  - destruct (named key (json_members value rq)); [eauto | discriminate P].
  - apply andb_prop in O. destruct O as [O _]. destruct (named key (fr_form rq)) as [xs|] eqn:N; [|discriminate P].
    destruct xs as [|x xs]; [now destruct (md_ok_named _ _ _ O N) | eauto].
  - apply andb_prop in O. destruct O as [_ O]. destruct (named key (fr_args rq)) as [xs|] eqn:N; [|discriminate P].
    destruct l; [eauto|]. destruct xs as [|x xs]; [now destruct (md_ok_named _ _ _ O N) | cbn; eauto].
  - destruct (header_named value hkey key (fr_headers rq)); [eauto | discriminate P].
  - destruct (named key (wd_environ w)); [cbn; eauto | discriminate P].
Qed.

(* the source as _wrapper_content sees it *)
Theorem ext_of_source_spec : forall kind (w : world) key l c,
  in_context value kind w = true -> world_ok value w = true ->
  exists x, ext_of_source value hkey strip of_list from_json (source_of kind key l c) w = Ok x /\
            e_has x = present kind w key /\
            (present kind w key = true -> exists v, source_value kind l w key = Some v /\ e_load x = Ok v).
Proof.
  intros kind w key l c H O. unfold ext_of_source. rewrite has_value_is_present by assumption.
  eexists. split; [reflexivity|]. split; [reflexivity|]. intro P. cbn [e_load].
  destruct (present_source_has_a_value kind l w key P O) as [v Hv]. exists v. split; [assumption|].
  now rewrite (load_value_is_source_value kind w key l c v Hv).
Qed.

(* GenericFlaskDeserializer *)
Definition deserializer_of (key : name) (as_list catch : bool) : source :=
  {| s_cls := ref_deserializer; s_key := key; s_list := as_list; s_catch := catch |}.

Theorem deserializer_has_value : forall (w : world) key l c,
  src_has (deserializer_of key l c) w =
  match wd_request w with Some rq => Ok (is_some (fr_json rq)) | None => Raise RuntimeErrorC end.
Proof. intros. unfold ValidateSources.src_has, the_request. cbn. now destruct (wd_request w). Qed.

Theorem deserializer_load_value : forall (w : world) rq body key l c,
  wd_request w = Some rq -> fr_json rq = Some body ->
  src_load (deserializer_of key l c) w =
  match from_json body with
  | Ok v => WOk v
  | Raise e =>
      if derives e ValidatorExceptionC then WRaise ParameterExceptionC None
      else if derives e ExceptionC then (if c then WRaise ParameterExceptionC (Some key) else WRaise e None)
      else WRaise e None
  end.
Proof.
  intros w rq body key l c Hr Hj. unfold ValidateSources.src_load, the_request. cbn [deserializer_of s_cls sc_load ref_deserializer].
  rewrite Hr, Hj. destruct (from_json body) as [v|e]; [reflexivity|]. cbn [dlookup].
  destruct (derives e ValidatorExceptionC); [reflexivity|]. destruct (derives e ExceptionC); reflexivity.
Qed.

(* the request is no JSON request: request.json raises inside the try block and is handled like any other Exception *)
Theorem deserializer_load_not_json : forall (w : world) rq key l c,
  wd_request w = Some rq -> fr_json rq = None ->
  src_load (deserializer_of key l c) w = if c then WRaise ParameterExceptionC (Some key) else WRaise ExceptionC None.
Proof.
  intros w rq key l c Hr Hj. unfold ValidateSources.src_load, the_request. cbn [deserializer_of s_cls sc_load ref_deserializer].
  rewrite Hr, Hj. reflexivity.
Qed.

End SrcProofs.

(* ================= sources that differ only under a name the caller passes ================= *)
Section ExtIrrelevant.
Variable value : Type.
Variable is_none : value -> bool.
Variable sg : signature value.
Variable env : wenv.
Hypothesis NV : s_varpos sg = false.

Notation param := (param value).
Notation deco := (deco value).
Notation rcfg := reference_cfg.
Notation rr := reference_req_rule.
Notation PV := (param_validate value is_none rcfg rr).
Notation vrun := (run value is_none rcfg rr sg env).
Notation wc_ref := (wc_ref value is_none sg env).
Notation step_m := (step_m value is_none).
Notation titem := (titem value is_none).
Notation uitems := (uitems value is_none sg).
Notation arrival := (arrival value sg).

Variable n : name.

(* p' is p, except that - if p is named n - its external source may be another one *)
Definition ext_variant (p p' : param) : Prop :=
  exists x, p' = with_ext value p x /\ (p_name p <> n -> x = p_ext p).

Lemma with_ext_same : forall p : param, with_ext value p (p_ext p) = p.
Proof. now destruct p. Qed.

Lemma ev_name : forall p p', ext_variant p p' -> p_name p' = p_name p.
Proof. intros p p' [x [-> _]]. reflexivity. Qed.

Lemma ev_flask : forall p p', ext_variant p p' -> p_flask_json p' = p_flask_json p.
Proof. intros p p' [x [-> _]]. reflexivity. Qed.

Lemma ev_other : forall p p', ext_variant p p' -> p_name p <> n -> p' = p.
Proof. intros p p' [x [-> H]] N. rewrite (H N). apply with_ext_same. Qed.

Lemma run_chain_we : forall (p : param) x fs i v,
  run_chain value rcfg (with_ext value p x) i fs v = run_chain value rcfg p i fs v.
Proof.
  induction fs as [|f fs IH]; intros i v; cbn [run_chain]; [reflexivity|].
  destruct (f v) as [v'|e]; [now rewrite IH|].
  destruct (hlookup (pv_chain_handlers rcfg) e); try reflexivity. now rewrite IH.
Qed.

Lemma ev_pv : forall p p' w, ext_variant p p' -> PV p' w = PV p w.
Proof.
  intros p p' w [x [-> _]]. unfold param_validate.
  change (is_required value rr (with_ext value p x)) with (is_required value rr p).
  change (run_convert value rcfg (with_ext value p x) w) with (run_convert value rcfg p w).
  destruct (is_none w); [reflexivity|]. destruct (run_convert value rcfg p w); [|reflexivity].
  apply run_chain_we.
Qed.

Variables dc dc' : deco.
Hypothesis Hp : Forall2 ext_variant (d_params dc) (d_params dc').
Hypothesis Hm : d_mode dc' = d_mode dc.
Hypothesis Hs : d_strict dc' = d_strict dc.
Hypothesis Hi : d_ignore_input dc' = d_ignore_input dc.

Lemma find_variant : forall k (l l' : list param), Forall2 ext_variant l l' ->
  match find (fun p => Nat.eqb (p_name p) k) l, find (fun p => Nat.eqb (p_name p) k) l' with
  | Some p, Some p' => ext_variant p p'
  | None, None => True
  | _, _ => False
  end.
Proof.
  induction 1 as [|p p' l l' E _ IH]; [exact I|]. cbn [find]. rewrite (ev_name _ _ E).
  destruct (Nat.eqb (p_name p) k); assumption.
Qed.

Lemma Forall2_rev' : forall A B (R : A -> B -> Prop) l l', Forall2 R l l' -> Forall2 R (rev l) (rev l').
Proof.
  induction 1 as [|a b l l' H _ IH]; [constructor|]. cbn [rev]. apply Forall2_app; [assumption | now constructor].
Qed.

Lemma lookup_variant : forall k,
  match lookup_param value dc k, lookup_param value dc' k with
  | Some p, Some p' => ext_variant p p'
  | None, None => True
  | _, _ => False
  end.
Proof. intro k. unfold lookup_param. apply find_variant. now apply Forall2_rev'. Qed.

Lemma step_m_variant : forall pos k w, step_m dc' pos k w = step_m dc pos k w.
Proof.
  intros pos k w. unfold ValidateRef.step_m. generalize (lookup_variant k).
  destruct (lookup_param value dc k) as [p|], (lookup_param value dc' k) as [p'|]; try contradiction.
  - intro E. now apply ev_pv.
  - intros _. unfold undeclared_m. now rewrite Hs.
Qed.

Lemma declared_variant : forall k, declared value dc' k = declared value dc k.
Proof.
  intro k. rewrite !lookup_param_declared. generalize (lookup_variant k).
  destruct (lookup_param value dc k), (lookup_param value dc' k); try contradiction; reflexivity.
Qed.

Lemma useds_variant : forall l, useds value dc' l = useds value dc l.
Proof. intro l. unfold ValidateRef.useds, usedk. apply flat_map_ext. intro kv. now rewrite declared_variant. Qed.

Lemma unused_variant : forall used, Forall2 ext_variant (unused_params value dc used) (unused_params value dc' used).
Proof.
  intro used. unfold ValidateRef.unused_params.
  assert (G : forall (l l' : list param), Forall2 ext_variant l l' ->
            Forall2 ext_variant (filter (fun p => negb (mem (p_name p) used)) l) (filter (fun p => negb (mem (p_name p) used)) l')).
  { induction 1 as [|p p' l l' E _ IH]; [constructor|].
    cbn [filter]. rewrite (ev_name _ _ E). destruct (negb (mem (p_name p) used)); [now constructor | assumption]. }
  now apply G.
Qed.

Lemma all_flask_variant : all_flask_json value dc' = all_flask_json value dc.
Proof.
  unfold all_flask_json.
  assert (G : forall (l l' : list param), Forall2 ext_variant l l' ->
            forallb (fun p => match lookup_param value dc' (p_name p) with Some q => p_flask_json q | None => true end) l' =
            forallb (fun p => match lookup_param value dc (p_name p) with Some q => p_flask_json q | None => true end) l).
  { induction 1 as [|p p' l l' E _ IH]; [reflexivity|]. cbn [forallb]. rewrite IH, (ev_name _ _ E). f_equal.
    generalize (lookup_variant (p_name p)).
    destruct (lookup_param value dc (p_name p)) as [q|], (lookup_param value dc' (p_name p)) as [q'|]; try contradiction.
    - intro Eq. now apply ev_flask.
    - reflexivity. }
  now apply G.
Qed.

Lemma flask_variant : flask_m value env dc' = flask_m value env dc.
Proof.
  unfold flask_m. rewrite Hs, all_flask_variant.
  destruct (d_strict dc && w_flask_installed env); [|reflexivity].
  destruct (all_flask_json value dc); [|reflexivity]. destruct (w_request env) as [rq|]; [|reflexivity].
  replace (existsb (fun k => negb (declared value dc' k)) (r_json_keys rq))
    with (existsb (fun k => negb (declared value dc k)) (r_json_keys rq)); [reflexivity|].
  apply existsb_ext_in. intros k _. now rewrite declared_variant.
Qed.

Lemma existsb_ext_in' : forall A (f g : A -> bool) l, (forall x, In x l -> f x = g x) -> existsb f l = existsb g l.
Proof. intros A f g l H. induction l as [|x l IH]; [reflexivity|]. cbn [existsb]. rewrite H, IH; auto using in_eq, in_cons. Qed.

(* THE STATEMENT: the caller passes a value for n - the sources of the Parameters named n are never consulted *)
Theorem ext_irrelevant_when_supplied : forall is_async c w,
  caller_gives value sg dc c n w -> vrun dc' is_async c = vrun dc is_async c.
Proof.
  intros is_async c w Gv. rewrite !(run_ref_nv value is_none sg env NV). rewrite Hm.
  assert (E : wc_ref dc' c = wc_ref dc c); [|now rewrite E].
  assert (Arr : arrival dc' c = arrival dc c) by (unfold ValidateGate.arrival; now rewrite Hi).
  destruct (arrival dc c) as [xs|] eqn:A.
  - rewrite (wc_ref_arrival _ _ _ _ _ _ _ A), (wc_ref_arrival _ _ _ _ _ _ _ Arr).
    assert (T : map (titem dc') xs = map (titem dc) xs).
    { apply map_ext. intros [t [k v]]. unfold ValidateGate.titem. cbn [fst snd]. now rewrite step_m_variant. }
    rewrite T. apply mbind_ext_ok. intros l12 S. apply seqm_ok in S.
    unfold ValidateRef.tail_m. rewrite useds_variant, flask_variant.
    replace (uitems (unused_params value dc' (useds value dc l12)))
      with (uitems (unused_params value dc (useds value dc l12))); [reflexivity|].
    assert (U := unused_variant (useds value dc l12)).
    assert (Not_n : forall p, In p (unused_params value dc (useds value dc l12)) -> p_name p <> n).
    { intros p Ip Q. apply unused_In in Ip. destruct Ip as [Id Ip]. apply Ip, In_useds. rewrite Q. split.
      - destruct (gives_arrival _ _ _ NV _ _ _ _ A Gv) as [x [Ix Ex]].
        rewrite (item_ok_keys _ _ _ S), map_map. apply in_map_iff. exists x. split; [|assumption].
        unfold ValidateGate.titem. cbn [fst]. now rewrite Ex.
      - unfold declared. apply existsb_exists. exists p. split; [assumption|]. now apply Nat.eqb_eq. }
    revert Not_n. induction U as [|p p' l l' Ev _ IH]; intro Not_n; [reflexivity|].
    unfold ValidateRef.uitems in *. cbn [map]. rewrite IH by (intros q Iq; apply Not_n; now right).
    now rewrite (ev_other _ _ Ev (Not_n p (or_introl eq_refl))).
  - destruct Gv as [Ig Gv]. unfold ValidateGate.arrival in A. unfold ValidateRef.wc_ref. rewrite Hi.
    rewrite Ig in *. destruct (bind_partial value sg (c_args c)) as [[bound star]|e0]; [discriminate|].
    replace (aitems value is_none dc' false (c_kwargs c)) with (aitems value is_none dc false (c_kwargs c)); [reflexivity|].
    unfold aitems. apply map_ext. intro kw. now rewrite step_m_variant.
Qed.

End ExtIrrelevant.

(* ================= declarations bound to concrete sources ================= *)
Section Bound.
Variable value : Type.
Variable is_none : value -> bool.
Variable hkey : name -> name.
Variable strip : value -> value.
Variable of_list : list value -> value.
Variable from_json : json_body value -> outcome value.
Variable sg : signature value.
Variable env : wenv.
Hypothesis NV : s_varpos sg = false.

Notation world := (world value).
Notation vrun := (run value is_none reference_cfg reference_req_rule sg env).
Notation ext_of_source := (ext_of_source value hkey strip of_list from_json).
Notation bind_sources := (bind_sources value hkey strip of_list from_json).
Notation with_source := (with_source value hkey strip of_list from_json).

Definition deco_of (ps : list (param value)) (m : return_as) (strict ignore : bool) : deco value :=
  {| d_params := ps; d_mode := m; d_strict := strict; d_ignore_input := ignore |}.

(* in the worlds w and w' every source bound to a Parameter NOT named n looks the same *)
Definition agree_outside (n : name) (w w' : world) (sps : list (sparam value)) : Prop :=
  forall sp s, In sp sps -> snd sp = Some s -> p_name (fst sp) <> n -> ext_of_source s w' = ext_of_source s w.

Lemma bind_sources_variant : forall n (w w' : world) sps ps ps',
  agree_outside n w w' sps -> bind_sources w sps = Ok ps -> bind_sources w' sps = Ok ps' ->
  Forall2 (ext_variant value n) ps ps'.
Proof.
  intros n w w'. induction sps as [|sp sps IH]; intros ps ps' Ag B B'.
  - cbn in B, B'. injection B as <-. injection B' as <-. constructor.
  - cbn [ValidateSources.bind_sources] in B, B'.
    destruct (with_source w sp) as [p|] eqn:W; [|discriminate B]. destruct (bind_sources w sps) as [qs|] eqn:Bs; [|discriminate B].
    destruct (with_source w' sp) as [p'|] eqn:W'; [|discriminate B']. destruct (bind_sources w' sps) as [qs'|] eqn:Bs'; [|discriminate B'].
    injection B as <-. injection B' as <-. constructor.
    + unfold ValidateSources.with_source in W, W'. destruct sp as [p0 [s|]]; cbn [fst snd] in *.
      * destruct (ext_of_source s w) as [x|] eqn:X; [|discriminate W]. destruct (ext_of_source s w') as [x'|] eqn:X'; [|discriminate W'].
        injection W as <-. injection W' as <-. exists (Some x'). split; [reflexivity|].
        intro N. cbn [p_name] in N. cbn [p_ext]. f_equal.
        assert (Q := Ag (p0, Some s) s (or_introl eq_refl) eq_refl N). rewrite X, X' in Q. now injection Q.
      * injection W as <-. injection W' as <-. exists (p_ext p0). split; [symmetry; apply with_ext_same | reflexivity].
    + apply IH; try reflexivity. intros sp' s I. apply Ag. now right.
Qed.

(* EXTERNAL SOURCES, concretely: the caller passes a value for n - whatever the request and the environment hold for
   the sources of the Parameters named n (one or several), the run is the same, journal included *)
Theorem sources_only_when_absent : forall n (w w' : world) sps ps ps' m strict ignore is_async c v,
  bind_sources w sps = Ok ps -> bind_sources w' sps = Ok ps' -> agree_outside n w w' sps ->
  caller_gives value sg (deco_of ps m strict ignore) c n v ->
  vrun (deco_of ps' m strict ignore) is_async c = vrun (deco_of ps m strict ignore) is_async c.
Proof.
  intros n w w' sps ps ps' m strict ignore is_async c v B B' Ag Gv.
  eapply ext_irrelevant_when_supplied with (n := n); try reflexivity; try eassumption.
  cbn [d_params deco_of]. eapply bind_sources_variant; eassumption.
Qed.

End Bound.
