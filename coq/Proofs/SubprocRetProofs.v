(* C17 - lemmas about Model/SubprocRet.v (what the child hands back for returned awaitables / iterators /
   coroutine objects). *)
From Coq Require Import List Arith Bool ZArith.
From PV Require Import Base.Exn Model.PipeKernel Model.Subproc Model.SubprocRet Gen.Subproc.
Import ListNotations.

Lemma value_eqb_refl : forall v, value_eqb v v = true.
Proof.
  induction v as [n | k a | k | v IH | ]; cbn.
  - apply Nat.eqb_refl.
  - destruct a; rewrite !Nat.eqb_refl; reflexivity.
  - apply Nat.eqb_refl.
  - exact IH.
  - reflexivity.
Qed.

Lemma send_value_ok : forall c, sent_ok c (send (inl (spec_result c))) = true.
Proof.
  intros c. unfold sent_ok, send. destruct (picklable (spec_result c)) eqn:E.
  - cbn. rewrite ?E, value_eqb_refl. reflexivity.
  - cbn. rewrite ?E. reflexivity.
Qed.

(* deciding by the function: every callee - whatever it returns - gets its own return value across, or,
   where that value cannot be pickled, nothing at all *)
Lemma by_function_faithful : forall c, sent_ok c (run_inner DByFunction c) = true.
Proof. intros [v | v]; cbn [run_inner is_coroutine_function call run_until_complete]; apply (send_value_ok (SyncFn v)) || apply (send_value_ok (CoroFn v)). Qed.

Lemma gen_dispatch : dispatch_of Gen.Subproc.child_prog = Some DByFunction.
Proof. vm_compute. reflexivity. Qed.

Lemma gen_faithful : forall c, exists d, dispatch_of Gen.Subproc.child_prog = Some d /\ sent_ok c (run_inner d c) = true.
Proof. intros c. exists DByFunction. split; [exact gen_dispatch | apply by_function_faithful]. Qed.

(* deciding by the value: EVERY plain function that returns an object with __await__ loses it *)
Lemma by_value_refuted : forall cls a, sent_ok (SyncFn (VAwaitable cls a)) (run_inner DByValue (SyncFn (VAwaitable cls a))) = false.
Proof. intros cls [n | e]; reflexivity. Qed.

(* ... and nothing else does *)
Lemma by_value_elsewhere : forall c,
  (match c with SyncFn (VAwaitable _ _) => false | SyncFn (VCoro _) => false | _ => true end) = true ->
  sent_ok c (run_inner DByValue c) = true.
Proof.
  intros [v | v] H.
  - destruct v; try discriminate H; apply (send_value_ok (SyncFn _)).
  - cbn [run_inner call isawaitable run_until_complete]. apply (send_value_ok (CoroFn v)).
Qed.

(* never running anything: every coroutine function with a picklable result fails *)
Lemma never_refuted : forall v, picklable v = true -> sent_ok (CoroFn v) (run_inner DNever (CoroFn v)) = false.
Proof. intros v H. cbn. rewrite H. reflexivity. Qed.
