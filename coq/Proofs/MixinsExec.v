(* C20 - what the translated programs (Gen/Mixins.v) compute, by symbolic execution of the
   interpreter of Model/Mixins.v.  Every lemma here is about the *regenerated* terms: when the
   source changes, the terms change and these proofs are re-checked against them.           *)
From Coq Require Import List ZArith Bool String Lia.
From PV Require Import Base.Exn Model.Mixins Spec.MixinsSpec Gen.Mixins.
Import ListNotations.
Open Scope string_scope.
Open Scope list_scope.

Notation P := Gen.Mixins.progs.

Definition first_generic (bases : list val) : val :=
  match filter is_generic_alias bases with [] => VNone | g :: _ => g end.

(* the dict built by {v: t for v, t in zip(ks, vs)} *)
Definition zipdict (ks vs : list val) : list (val * val) :=
  fold_left (fun acc p => dict_set (fst p) (snd p) acc) (combine ks vs) [].

(* ----- generic facts about the iterators --------------------------------------------------- *)

Lemma comp_list_filter : forall fc fe p items,
  (forall i, In i items -> fc i = Ok (VBool (p i)) /\ fe i = Ok i) ->
  comp_list fc fe items = Ok (filter p items).
Proof.
  intros fc fe p. induction items as [|i r IH]; intro H; [reflexivity|].
  destruct (H i (or_introl eq_refl)) as [Hc He].
  cbn [comp_list filter]. rewrite Hc. cbn [bind truthy]. rewrite IH by (intros; apply H; now right).
  destruct (p i); [rewrite He|]; reflexivity.
Qed.

Lemma comp_dict_fold : forall fkv g items acc,
  (forall i, In i items -> fkv i = Ok (g i)) ->
  comp_dict fkv items acc = Ok (fold_left (fun a i => dict_set (fst (g i)) (snd (g i)) a) items acc).
Proof.
  intros fkv g. induction items as [|i r IH]; intros acc H; [reflexivity|].
  cbn [comp_dict fold_left]. rewrite (H i (or_introl eq_refl)). cbn [bind].
  apply IH. intros; apply H; now right.
Qed.

Lemma for_loop_cons : forall body i r en j,
  for_loop body (i :: r) en j =
  match body i en j with
  | RNormal en' j' | RContinue en' j' => for_loop body r en' j'
  | RBreak en' j' => RNormal en' j'
  | other => other
  end.
Proof. reflexivity. Qed.

Lemma for_loop_nil : forall body en j, for_loop body [] en j = RNormal en j.
Proof. reflexivity. Qed.

Lemma call_S : forall w ext k name args,
  call_n P w ext (S k) name args =
  match assoc name P with
  | Some fd => fst (run_fundef P w ext (call_n P w ext k) fd args)
  | None => Raise NameErrorC
  end.
Proof. reflexivity. Qed.

Arguments comp_list : simpl never.
Arguments comp_dict : simpl never.
Arguments for_loop : simpl never.
Arguments call_n : simpl never.
Arguments lookup_ob : simpl never.

Lemma is_generic_alias_filter_app : forall a b,
  filter is_generic_alias (a ++ b) = filter is_generic_alias a ++ filter is_generic_alias b.
Proof. intros; apply filter_app. Qed.

Lemma filter_none : forall l, existsb is_generic_alias l = false -> filter is_generic_alias l = [].
Proof.
  induction l as [|x l IH]; [reflexivity|]. cbn [existsb filter]. intro H.
  apply orb_false_iff in H as [H1 H2]. rewrite H1. auto.
Qed.

Lemma plain_not_generic : forall l, forallb is_plain l = true -> existsb is_generic_alias l = false.
Proof.
  induction l as [|x l IH]; [reflexivity|]. cbn [forallb existsb]. intro H.
  apply andb_true_iff in H as [H1 H2]. destruct x; try discriminate H1. cbn. auto.
Qed.

Lemma plain_is_base : forall l, forallb is_plain l = true -> forallb is_base l = true.
Proof.
  induction l as [|x l IH]; [reflexivity|]. cbn [forallb]. intro H.
  apply andb_true_iff in H as [H1 H2]. destruct x; try discriminate H1. cbn. auto.
Qed.

Lemma declares_first_generic : forall bases ts,
  declares_generic bases ts -> forallb is_base bases = true /\ first_generic bases = VAlias VGeneric ts.
Proof.
  intros bases ts (pre & post & -> & Hb & Hg).
  rewrite forallb_app in Hb. apply andb_true_iff in Hb as [Hb1 Hb2]. split.
  - rewrite forallb_app. cbn [forallb is_base]. now rewrite Hb1, Hb2.
  - unfold first_generic. rewrite filter_app, (filter_none _ Hg). reflexivity.
Qed.

Lemma get_inst_ob : forall w call c oc,
  get_attr P w call (VInst c oc) "__orig_bases__" =
  match lookup_ob w c with Some l => Ok (VTuple l) | None => Raise AttributeErrorC end.
Proof. intros. cbn. destruct (lookup_ob w c); reflexivity. Qed.

Lemma get_cls_ob : forall w call c,
  get_attr P w call (VCls c) "__orig_bases__" =
  match lookup_ob w c with Some l => Ok (VTuple l) | None => Raise AttributeErrorC end.
Proof. intros. cbn. destruct (lookup_ob w c); reflexivity. Qed.

Lemma get_inst_oc : forall w call c oc,
  get_attr P w call (VInst c oc) "__orig_class__" = of_opt oc.
Proof. reflexivity. Qed.

(* ----- get_generic_base --------------------------------------------------------------------- *)

Lemma ggb_ok : forall w k obj bases,
  get_attr P w (call_n P w no_ext k) obj "__orig_bases__" = Ok (VTuple bases) ->
  forallb is_base bases = true ->
  call_n P w no_ext (S k) "get_generic_base" [obj] = Ok (first_generic bases).
Proof.
  intros w k obj bases Hob Hb.
  rewrite call_S. cbn [assoc String.eqb Ascii.eqb Bool.eqb progs].
  unfold run_fundef. cbn. rewrite Hob. cbn.
  erewrite (comp_list_filter _ _ is_generic_alias).
  2:{ intros i Hi. assert (Hbi : is_base i = true) by (rewrite forallb_forall in Hb; auto).
      destruct i as [| | | | | | | o a | | | | | | |]; try discriminate Hbi; cbn; [split; reflexivity|].
      destruct o; cbn; split; reflexivity. }
  cbn. unfold first_generic. destruct (filter is_generic_alias bases) as [|g r]; reflexivity.
Qed.

(* get_generic_base on something without __orig_bases__ : the AttributeError leaves *)
Lemma ggb_attr_error : forall w k obj e,
  get_attr P w (call_n P w no_ext k) obj "__orig_bases__" = Raise e ->
  call_n P w no_ext (S k) "get_generic_base" [obj] = Raise e.
Proof.
  intros w k obj e Hob.
  rewrite call_S. cbn [assoc String.eqb Ascii.eqb Bool.eqb progs].
  unfold run_fundef. cbn. rewrite Hob. reflexivity.
Qed.

(* ----- _get_types ----------------------------------------------------------------------------- *)

Lemma gt_non_generic : forall w k c oc,
  lookup_ob w c = None ->
  call_n P w no_ext (S k) "_get_types" [VInst c oc] = Raise AssertionErrorC.
Proof.
  intros w k c oc H. rewrite call_S. cbn [assoc String.eqb Ascii.eqb Bool.eqb progs].
  unfold run_fundef. cbn. unfold has_attr. rewrite get_inst_ob, H. reflexivity.
Qed.

Lemma zip_items : forall fkv (en : env) ts xs,
  (forall a b, fkv (VTuple [a; b]) = Ok (a, b)) ->
  comp_dict fkv (map (fun p => VTuple [fst p; snd p]) (combine ts xs)) [] = Ok (zipdict ts xs).
Proof.
  intros fkv en ts xs H.
  rewrite (comp_dict_fold _ (fun i => match i with VTuple [a; b] => (a, b) | _ => (VNone, VNone) end)).
  - unfold zipdict. f_equal. generalize (@nil (val * val)). induction (combine ts xs) as [|p l IH]; intro acc; [reflexivity|].
    cbn [map fold_left]. apply IH.
  - intros i Hi. apply in_map_iff in Hi as (p & <- & _). apply H.
Qed.

Lemma gt_direct : forall w k c oc bases ts,
  lookup_ob w c = Some bases -> forallb is_base bases = true ->
  first_generic bases = VAlias VGeneric ts ->
  call_n P w no_ext (S (S k)) "_get_types" [VInst c oc] =
  match oc with
  | None => Raise AssertionErrorC
  | Some a => match a with
              | VAlias _ xs => Ok (VDict (zipdict ts xs))
              | _ => call_n P w no_ext (S (S k)) "_get_types" [VInst c oc]
              end
  end.
Proof.
  intros w k c oc bases ts Hl Hb Hg.
  destruct oc as [[| | | | | | | o xs | | | | | | |]|]; try reflexivity.
  all: rewrite call_S; cbn [assoc String.eqb Ascii.eqb Bool.eqb progs].
  all: unfold run_fundef; cbn; unfold has_attr; rewrite get_inst_ob, Hl; cbn.
  all: rewrite (ggb_ok w k _ bases) by (try assumption; now rewrite get_inst_ob, Hl).
  all: rewrite Hg; cbn; try reflexivity.
  erewrite zip_items; [reflexivity|exact []|]. intros x y. reflexivity.
Qed.
