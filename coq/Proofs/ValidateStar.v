(* Functions with a star-args parameter in their principal use (Spec.spec_star_domain): the run ends as
   Spec.spec_star_outcome demands. *)
From Coq Require Import List Arith Bool Permutation Lia.
From PV Require Import Base.Exn Model.ValidateSem Spec.ValidateSpec Proofs.ValidateDict Proofs.ValidateRef
  Proofs.ValidateBind Proofs.ValidateGate Proofs.ValidateByName Proofs.ValidateSpecLink.
Import ListNotations.

Section ListFacts.
Variable value : Type.
Notation dict := (dict value).

Lemma dset_fresh : forall k v (d : dict), ~ In k (keys d) -> dset k v d = d ++ [(k, v)].
Proof.
  induction d as [|[k' w] d IH]; intro N; [reflexivity|]. cbn in *.
  destruct (Nat.eqb k' k) eqn:Q; [apply Nat.eqb_eq in Q; tauto|]. f_equal. apply IH. tauto.
Qed.

Lemma dsets_fresh : forall (l d : dict), NoDup (keys (d ++ l)) -> dsets l d = d ++ l.
Proof.
  induction l as [|[k v] l IH]; intros d ND; [now rewrite app_nil_r|]. cbn [dsets fold_left fst snd].
  fold (dsets l (dset k v d)).
  assert (N : ~ In k (keys d)).
  { unfold keys in ND. rewrite map_app in ND. cbn in ND. apply NoDup_remove_2 in ND. intro I. apply ND. apply in_or_app. now left. }
  rewrite (dset_fresh _ _ _ N), IH; [now rewrite <- app_assoc|]. now rewrite <- app_assoc.
Qed.

Lemma combine_fst_snd : forall (l : dict) (t : list value), combine (map fst l) (map snd l ++ t) = l.
Proof. induction l as [|[k v] l IH]; intro t; [reflexivity|]. cbn. now rewrite IH. Qed.

Lemma skipn_map_snd_app : forall (l : dict) (t : list value), skipn (List.length (map fst l)) (map snd l ++ t) = t.
Proof. induction l as [|[k v] l IH]; intro t; [reflexivity|]. cbn. apply IH. Qed.

End ListFacts.

Section Star.
Variable value : Type.
Variable is_none : value -> bool.
Variable sg : signature value.
Variable env : wenv.
Variable dc : deco value.
Variable c : call value.

Notation param := (param value).
Notation dict := (dict value).
Notation M := (M value).
Notation rcfg := reference_cfg.
Notation rr := reference_req_rule.
Notation PV := (param_validate value is_none rcfg rr).
Notation seqm := (seqm value).
Notation u_m := (u_m value is_none sg).
Notation vrun := (run value is_none rcfg rr sg env dc).
Notation sdecl := (spec_declared value is_none sg dc c).

Hypothesis DOM : spec_star_domain value sg dc c = true.
Hypothesis Exc : forall p, In p (d_params dc) -> derives (p_exc p) ParameterExceptionC = true.
Hypothesis Fl : snd (flask_m value env dc) = WOk tt.

Let P := s_params sg.
Let names := map (@sp_name value) P.
Let n := List.length P.
Let ps := d_params dc.
Let NP := firstn n ps.
Let SP := skipn n ps.
Let hd := firstn n (c_args c).
Let ex := skipn n (c_args c).

Lemma names_eqb_eq : forall a b, names_eqb a b = true -> a = b.
Proof.
  induction a as [|x a IH]; intros [|y b] H; try discriminate; [reflexivity|]. cbn in H.
  apply andb_true_iff in H. destruct H as [H1 H2]. apply Nat.eqb_eq in H1. subst. f_equal. auto.
Qed.

Lemma dom_parts :
  s_varpos sg = true /\ d_mode dc = ARGS /\ d_ignore_input dc = false /\ c_kwargs c = [] /\
  pos_params value sg = P /\ in_sig value sg self_name = false /\
  NoDup (map (@p_name value) ps) /\ NoDup names /\
  map (@p_name value) ps = names ++ map (@p_name value) (star_params value sg dc) /\
  n <= List.length (c_args c) /\ declared value dc self_name = false /\
  (forall p, In p ps -> p_name p < 1000).
Proof.
  assert (D := DOM). unfold spec_star_domain in D. repeat rewrite andb_true_iff in D.
  destruct D as [[[[[[[[[[D1 D2] D3] D4] D5] D6] D7] D8] D9] D10] D11].
  assert (E : filter (fun sp : sigparam value => negb (sp_kwonly sp)) (s_params sg) = P).
  { apply filter_true. intros sp I. rewrite forallb_forall in D5. now apply D5. }
  unfold decl_wellformed in D7. apply andb_true_iff in D7. destruct D7 as [D7a D7b].
  repeat split.
  - exact D1.
  - destruct (d_mode dc); [reflexivity | discriminate | discriminate].
  - now apply negb_true_iff.
  - destruct (c_kwargs c); [reflexivity | discriminate].
  - exact E.
  - now apply negb_true_iff.
  - now apply nodup_names_NoDup.
  - apply nodup_names_NoDup. exact D7b.
  - apply names_eqb_eq in D8. unfold ps. rewrite D8. unfold positional_names, names. now rewrite E.
  - apply Nat.leb_le in D9. unfold positional_names in D9. rewrite map_length, E in D9. exact D9.
  - apply negb_true_iff in D10. exact D10.
  - intros p I. rewrite forallb_forall in D11. apply Nat.ltb_lt. now apply D11.
Qed.

Lemma firstn_map' : forall A B (f : A -> B) k l, firstn k (map f l) = map f (firstn k l).
Proof. induction k as [|k IH]; intros [|x l]; cbn; try reflexivity. now rewrite IH. Qed.

Lemma skipn_map' : forall A B (f : A -> B) k l, skipn k (map f l) = map f (skipn k l).
Proof. induction k as [|k IH]; intros [|x l]; cbn; try reflexivity. apply IH. Qed.

Lemma firstn_app_exact : forall A (a b : list A), firstn (List.length a) (a ++ b) = a.
Proof. induction a as [|x a IH]; intro b; cbn; [now destruct b | now rewrite IH]. Qed.

Lemma skipn_app_exact : forall A (a b : list A), skipn (List.length a) (a ++ b) = b.
Proof. induction a as [|x a IH]; intro b; cbn; [reflexivity | apply IH]. Qed.

Lemma filter_false : forall A (f : A -> bool) l, (forall x, In x l -> f x = false) -> filter f l = [].
Proof.
  induction l as [|x l IH]; intro H; [reflexivity|]. cbn. rewrite (H x (or_introl eq_refl)). apply IH. intros; apply H; now right.
Qed.

Lemma in_sig_names : forall k, in_sig value sg k = true <-> In k names.
Proof.
  intro k. unfold in_sig, sig_names. fold P. fold names. rewrite existsb_exists. split.
  - intros [x [I E]]. apply Nat.eqb_eq in E. now subst.
  - intro I. exists k. split; [assumption | apply Nat.eqb_refl].
Qed.

Lemma names_len : List.length names = n.
Proof. unfold names, n. apply map_length. Qed.

Lemma NP_names : map (@p_name value) NP = names.
Proof.
  destruct dom_parts as (_ & _ & _ & _ & _ & _ & _ & _ & E & _). unfold NP. rewrite <- firstn_map', E, <- names_len.
  apply firstn_app_exact.
Qed.

Lemma SP_names : map (@p_name value) SP = map (@p_name value) (star_params value sg dc).
Proof.
  destruct dom_parts as (_ & _ & _ & _ & _ & _ & _ & _ & E & _). unfold SP. rewrite <- skipn_map', E, <- names_len.
  apply skipn_app_exact.
Qed.

Lemma ps_split : ps = NP ++ SP.
Proof. unfold NP, SP. symmetry. apply firstn_skipn. Qed.

Lemma NP_in_sig : forall p, In p NP -> in_sig value sg (p_name p) = true.
Proof. intros p I. apply in_sig_names. rewrite <- NP_names. now apply in_map. Qed.

Lemma SP_not_in_sig : forall p, In p SP -> in_sig value sg (p_name p) = false.
Proof.
  intros p I. assert (J : In (p_name p) (map (@p_name value) (star_params value sg dc))) by (rewrite <- SP_names; now apply in_map).
  apply in_map_iff in J. destruct J as [q [E Iq]]. unfold star_params in Iq. apply filter_In in Iq. destruct Iq as [_ Iq].
  rewrite E in Iq. now apply negb_true_iff.
Qed.

Lemma star_is_SP : star_params value sg dc = SP.
Proof.
  unfold star_params. fold ps. rewrite ps_split, filter_app.
  replace (filter _ NP) with (@nil param).
  - cbn. apply filter_true. intros p I. now rewrite (SP_not_in_sig _ I).
  - symmetry. apply filter_false. intros p I. now rewrite (NP_in_sig _ I).
Qed.

Lemma In_ps : forall p, In p NP \/ In p SP -> In p (d_params dc).
Proof. intros p I. fold ps. rewrite ps_split. apply in_or_app. exact I. Qed.

Lemma args_split : c_args c = hd ++ ex /\ List.length hd = n.
Proof.
  destruct dom_parts as (_ & _ & _ & _ & _ & _ & _ & _ & _ & L & _). unfold hd, ex. split; [symmetry; apply firstn_skipn|].
  apply firstn_length_le. exact L.
Qed.

Lemma NP_len : List.length NP = n.
Proof. rewrite <- names_len, <- NP_names. now rewrite map_length. Qed.

(* ---------- the model on this domain ---------- *)
Definition zitem (ap : value * param) : name * M value := (p_name (snd ap), PV (snd ap) (fst ap)).
Definition I1 : list (name * M value) := map zitem (combine hd NP).
Definition I2 : list (name * M value) := map zitem (combine ex SP).
Definition sur : list value := skipn (List.length SP) ex.
Definition SUR : dict := combine (map star_key (seq (List.length SP) (List.length sur))) sur.
Definition I3 : list (name * M value) := uitems value is_none sg (skipn (List.length ex) SP).
Definition too_many : bool := d_strict dc && Nat.ltb (List.length SP) (List.length ex).

Lemma zip_loop_ref : forall l s,
  zip_loop value is_none rcfg rr l s =
  mbind (seqm (map zitem l)) (fun out => ret (dsets out (fst s), snd s ++ keys out)).
Proof.
  induction l as [|[a p] l IH]; intro s.
  - cbn [zip_loop map ValidateRef.seqm]. rewrite mbind_ret_l. cbn. rewrite app_nil_r. now destruct s.
  - cbn [zip_loop map ValidateRef.seqm zitem fst snd]. rewrite !mbind_assoc. apply mbind_ext. intro v.
    rewrite IH, mbind_assoc. apply mbind_ext. intro out. rewrite mbind_ret_l. cbn [fst snd keys map dsets fold_left].
    now rewrite <- app_assoc.
Qed.

Lemma pass_surplus_dsets : forall l i (r : dict),
  pass_surplus value i l r = dsets (combine (map star_key (seq i (List.length l))) l) r.
Proof. induction l as [|a l IH]; intros i r; [reflexivity|]. cbn. apply IH. Qed.

Lemma useds_declared : forall l : dict, (forall k, In k (keys l) -> declared value dc k = true) -> useds value dc l = keys l.
Proof.
  induction l as [|[k v] l IH]; intro H; [reflexivity|]. unfold useds in *. cbn [flat_map fst keys map].
  unfold usedk at 1. rewrite (H k (or_introl eq_refl)). cbn. f_equal. apply IH. intros k' I. apply H. now right.
Qed.

Lemma filter_prefix : forall (l : list param) U k, NoDup (map (@p_name value) l) ->
  (forall p, In p l -> ~ In (p_name p) U) ->
  filter (fun p => negb (mem (p_name p) (U ++ map (@p_name value) (firstn k l)))) l = skipn k l.
Proof.
  induction l as [|x l IH]; intros U k ND HU; [now destruct k|]. cbn [map] in ND. inversion ND as [|? ? Hx ND']; subst.
  destruct k as [|k].
  - cbn [firstn map skipn]. rewrite app_nil_r. apply filter_true. intros p I. apply negb_true_iff, mem_false. now apply HU.
  - cbn [firstn map skipn filter].
    replace (mem (p_name x) (U ++ p_name x :: map (@p_name value) (firstn k l))) with true
      by (symmetry; apply mem_In, in_or_app; right; now left).
    cbn [negb]. rewrite <- (IH (U ++ [p_name x]) k ND').
    + apply filter_ext. intro p. now rewrite <- app_assoc.
    + intros p I J. apply in_app_or in J. destruct J as [J|[J|[]]]; [apply (HU p); [now right | exact J]|].
      apply Hx. rewrite J. now apply in_map.
Qed.

Lemma SP_nodup : NoDup (map (@p_name value) SP) /\ (forall p, In p SP -> ~ In (p_name p) names).
Proof.
  destruct dom_parts as (_ & _ & _ & _ & _ & _ & ND & _). rewrite ps_split, map_app in ND. split.
  - clear -ND. induction (map (@p_name value) NP) as [|x l IH]; [exact ND|]. cbn in ND. inversion ND. auto.
  - intros p I J. apply in_sig_names in J. rewrite (SP_not_in_sig _ I) in J. discriminate.
Qed.

Lemma unused_after : forall k, unused_params value dc (names ++ map (@p_name value) (firstn k SP)) = skipn k SP.
Proof.
  intro k. unfold unused_params. fold ps. rewrite ps_split, filter_app.
  replace (filter _ NP) with (@nil param).
  - cbn [app]. apply filter_prefix; apply SP_nodup.
  - symmetry. apply filter_false. intros p I. apply negb_false_iff, mem_In, in_or_app. left. rewrite <- NP_names. now apply in_map.
Qed.

Lemma map_snd_combine : forall A B (a : list A) (b : list B), map snd (combine a b) = firstn (List.length a) b.
Proof. induction a as [|x a IH]; intros [|y b]; cbn; try reflexivity. now rewrite IH. Qed.

Lemma I1_keys : map fst I1 = names.
Proof.
  unfold I1. rewrite map_map. cbn [zitem fst]. rewrite <- (map_map snd (@p_name value)), map_snd_combine.
  destruct args_split as [_ L]. rewrite L, <- NP_len, firstn_all. apply NP_names.
Qed.

Lemma I2_keys : map fst I2 = map (@p_name value) (firstn (List.length ex) SP).
Proof. unfold I2. rewrite map_map. cbn [zitem fst]. now rewrite <- (map_map snd (@p_name value)), map_snd_combine. Qed.

Lemma bound_items : aitems value is_none dc true (combine names hd) = I1.
Proof.
  unfold aitems, I1. rewrite <- NP_names.
  assert (G : forall (l : list param) (h : list value), (forall p, In p l -> In p (d_params dc)) ->
            map (fun kw : name * value => (fst kw, step_m value is_none dc true (fst kw) (snd kw))) (combine (map (@p_name value) l) h)
            = map zitem (combine h l)).
  { destruct dom_parts as (_ & _ & _ & _ & _ & _ & ND & _).
    induction l as [|p l IH]; intros [|a h] Hl; cbn; try reflexivity.
    f_equal; [|apply IH; intros; apply Hl; now right].
    unfold zitem. cbn [fst snd]. f_equal. unfold step_m. now rewrite (lookup_unique value dc p ND (Hl p (or_introl eq_refl))). }
  apply G. intros p I. apply In_ps. now left.
Qed.

Definition wc_star_res : wres dict :=
  match snd (seqm I1) with
  | WRaise e pn => WRaise e pn
  | WOk l1 =>
      if too_many then WRaise TooManyArgumentsC None
      else match snd (seqm I2) with
           | WRaise e pn => WRaise e pn
           | WOk l2 =>
               match snd (seqm I3) with
               | WRaise e pn => WRaise e pn
               | WOk l3 => WOk (dsets l3 (dsets SUR (dsets l2 (dsets l1 []))))
               end
           end
  end.

Lemma tail_star : forall (r : dict) used k, used = names ++ map (@p_name value) (firstn k SP) ->
  snd (mbind (mbind (unused_loop value is_none rcfg rr sg (unused_params value dc used) r) (fun r' => ret (r', used)))
             (fun s => mbind (mbind (flask_strict value env dc s) (fun s' => ret s')) (fun s' => ret (fst s'))))
  = match snd (seqm (uitems value is_none sg (skipn k SP))) with
    | WRaise e pn => WRaise e pn
    | WOk l3 => WOk (dsets l3 r)
    end.
Proof.
  intros r used k ->. rewrite unused_after, unused_loop_ref. rewrite !snd_mbind.
  destruct (snd (seqm (uitems value is_none sg (skipn k SP)))) as [l3|e pn]; [|reflexivity].
  cbn [ret snd fst]. rewrite flask_ref, !snd_mbind, Fl. reflexivity.
Qed.

Lemma combine_firstn_r : forall A B (a : list A) (b : list B), combine a b = combine a (firstn (List.length a) b).
Proof. induction a as [|x a IH]; intros [|y b]; cbn; try reflexivity. now rewrite <- IH. Qed.

Lemma names_declared : forall k, In k names -> declared value dc k = true.
Proof.
  intros k I. rewrite <- NP_names in I. apply in_map_iff in I. destruct I as [p [<- I]]. apply In_declared, In_ps. now left.
Qed.

Lemma wc_star : snd (wrapper_content value is_none rcfg rr sg env dc c) = wc_star_res.
Proof.
  destruct dom_parts as (VP & MD & IG & KW & PP & NS & NDp & NDn & EN & LE & DS & LT).
  unfold wrapper_content. cbn [wc_phases reference_cfg run_phases]. rewrite IG. cbn [andb run_phase].
  rewrite KW. cbn [process]. rewrite mbind_ret_l.
  unfold bind_partial. rewrite VP, PP. fold names. fold n. fold ex.
  rewrite (combine_firstn_r _ _ names (c_args c)), names_len. fold hd.
  rewrite process_ref, bound_items. cbn [fst snd app]. rewrite !mbind_assoc, snd_mbind. unfold wc_star_res.
  destruct (snd (seqm I1)) as [l1|e pn] eqn:S1; [|reflexivity].
  assert (K1 : keys l1 = names) by (rewrite (item_ok_keys _ _ _ (seqm_ok _ _ _ S1)); apply I1_keys).
  assert (U1 : useds value dc l1 = names).
  { rewrite useds_declared; [exact K1|]. intros k I. apply names_declared. now rewrite <- K1. }
  rewrite mbind_ret_l, U1.
  assert (Ex : ex = [] \/ exists a t, ex = a :: t) by (destruct ex; eauto).
  destruct Ex as [Ex|(a & t & Ex)].
  - (* no positional for the tuple: the zip branch is not entered *)
    rewrite Ex, mbind_ret_l. cbn [fst snd].
    assert (T : too_many = false) by (unfold too_many; rewrite Ex; cbn; now rewrite andb_false_r).
    assert (E2 : I2 = []) by (unfold I2; now rewrite Ex).
    assert (ES : SUR = []) by (unfold SUR, sur; rewrite Ex, skipn_nil; reflexivity).
    assert (E3 : I3 = uitems value is_none sg SP) by (unfold I3; now rewrite Ex).
    rewrite T, E2, ES, E3. cbn [ValidateRef.seqm ret snd dsets fold_left].
    assert (X := unused_after 0). cbn [firstn map skipn] in X. rewrite app_nil_r in X. unfold unused_params in X. rewrite X.
    rewrite unused_loop_ref, !mbind_assoc, snd_mbind.
    destruct (snd (seqm (uitems value is_none sg SP))) as [l3|e pn]; [|reflexivity].
    rewrite !mbind_ret_l. cbn [fst snd]. rewrite flask_ref, !mbind_assoc, snd_mbind, Fl. rewrite !mbind_ret_l. reflexivity.
  - rewrite Ex. rewrite <- Ex. unfold zip_args. cbn [fst snd].
    assert (X := unused_after 0). cbn [firstn map skipn] in X. rewrite app_nil_r in X. unfold unused_params in X. rewrite X.
    fold too_many. destruct too_many; [reflexivity|].
    rewrite zip_loop_ref. fold I2. rewrite !mbind_assoc, snd_mbind.
    destruct (snd (seqm I2)) as [l2|e pn] eqn:S2; [|reflexivity].
    assert (K2 : keys l2 = map (@p_name value) (firstn (List.length ex) SP)).
    { rewrite (item_ok_keys _ _ _ (seqm_ok _ _ _ S2)). apply I2_keys. }
    rewrite !mbind_ret_l. cbn [fst snd]. rewrite K2, pass_surplus_dsets. fold sur. fold SUR.
    assert (Y := unused_after (List.length ex)). unfold unused_params in Y. rewrite Y. fold I3.
    rewrite unused_loop_ref, !mbind_assoc, snd_mbind. fold I3.
    destruct (snd (seqm I3)) as [l3|e pn]; [|reflexivity].
    rewrite !mbind_ret_l. cbn [fst snd]. rewrite flask_ref, !mbind_assoc, snd_mbind, Fl. rewrite !mbind_ret_l. reflexivity.
Qed.

(* ---------- what the body observes when _wrapper_content succeeded ---------- *)
Lemma fill_exact : forall (ps' : list (sigparam value)) (l d : dict),
  map fst l = map (@sp_name value) ps' -> (forall kv, In kv l -> dget (fst kv) d = Some (snd kv)) -> fill value ps' d = Some l.
Proof.
  induction ps' as [|sp ps' IH]; intros [|[k v] l] d E H; try discriminate; [reflexivity|]. cbn in E. injection E as E1 E2.
  cbn [fill]. subst k. assert (X := H (sp_name sp, v) (or_introl eq_refl)). cbn [fst snd] in X. rewrite X.
  rewrite (IH l d E2); [reflexivity|]. intros kv I. apply H. now right.
Qed.

Lemma firstn_In : forall A k (l : list A) x, In x (firstn k l) -> In x l.
Proof. intros A k l x I. rewrite <- (firstn_skipn k l). apply in_or_app. now left. Qed.
Lemma skipn_In : forall A k (l : list A) x, In x (skipn k l) -> In x l.
Proof. intros A k l x I. rewrite <- (firstn_skipn k l). apply in_or_app. now right. Qed.

Lemma star_entries : forall (u : list value) j,
  let S := combine (map star_key (seq j (List.length u))) u in
  map snd S = u /\ (forall k, In k (keys S) -> 1000 + j <= k) /\ NoDup (keys S).
Proof.
  induction u as [|a u IH]; intro j; cbn zeta; [repeat split; [contradiction | constructor]|].
  cbn [List.length seq map combine]. destruct (IH (S j)) as (H1 & H2 & H3). repeat split.
  - cbn. now rewrite H1.
  - intros k [<-|I]; [unfold star_key; cbn; lia|]. apply H2 in I. lia.
  - cbn. constructor; [|exact H3]. intro I. apply H2 in I. unfold star_key in I. lia.
Qed.

Lemma SUR_props : map snd SUR = sur /\ (forall k, In k (keys SUR) -> 1000 <= k) /\ NoDup (keys SUR).
Proof.
  destruct (star_entries sur (List.length SP)) as (H1 & H2 & H3). repeat split; try assumption.
  intros k I. apply H2 in I. lia.
Qed.

Lemma result_list : forall l1 l2 l3,
  snd (seqm I1) = WOk l1 -> too_many = false -> snd (seqm I2) = WOk l2 -> snd (seqm I3) = WOk l3 ->
  dsets l3 (dsets SUR (dsets l2 (dsets l1 []))) = l1 ++ l2 ++ SUR ++ l3 /\
  (forall k, In k (keys (l1 ++ l2 ++ SUR ++ l3)) -> k <> self_name) /\
  NoDup (keys l1) /\ keys l1 = names /\
  map snd (l2 ++ SUR ++ l3) = map snd l2 ++ map snd l3 ++ sur.
Proof.
  intros l1 l2 l3 S1 T S2 S3.
  destruct dom_parts as (VP & MD & IG & KW & PP & NS & NDp & NDn & EN & LE & DS & LT).
  assert (K1 : keys l1 = names) by (rewrite (item_ok_keys _ _ _ (seqm_ok _ _ _ S1)); apply I1_keys).
  assert (K2 : keys l2 = map (@p_name value) (firstn (List.length ex) SP)).
  { rewrite (item_ok_keys _ _ _ (seqm_ok _ _ _ S2)). apply I2_keys. }
  assert (K3 : keys l3 = map (@p_name value) (skipn (List.length ex) SP)).
  { rewrite (item_ok_keys _ _ _ (seqm_ok _ _ _ S3)). unfold I3, uitems. rewrite map_map. reflexivity. }
  destruct SUR_props as (Sv & Sk & Sn).
  assert (Alt : (SUR = [] /\ sur = []) \/ (l3 = [] /\ firstn (List.length ex) SP = SP)).
  { destruct (Nat.le_gt_cases (List.length ex) (List.length SP)) as [L|L].
    - left. assert (sur = []) by (unfold sur; now apply skipn_all2). split; [|assumption]. unfold SUR. rewrite H. reflexivity.
    - right. assert (E : skipn (List.length ex) SP = []) by (apply skipn_all2; lia). split.
      + rewrite E in K3. destruct l3; [reflexivity | discriminate].
      + apply firstn_all2. lia. }
  assert (NDps : NoDup (names ++ map (@p_name value) SP)) by (rewrite <- NP_names, <- map_app, <- ps_split; exact NDp).
  assert (KA : keys (l1 ++ l2 ++ SUR ++ l3) = names ++ keys l2 ++ keys SUR ++ keys l3).
  { unfold keys. rewrite !map_app. fold (keys l1). now rewrite K1. }
  assert (NDall : NoDup (keys (l1 ++ l2 ++ SUR ++ l3))).
  { rewrite KA. destruct Alt as [[E1 _]|[E1 E2]].
    - rewrite E1. cbn [keys map app]. rewrite K2, K3, <- map_app, firstn_skipn. exact NDps.
    - rewrite E1, K2, E2. cbn [keys map]. rewrite app_nil_r, app_assoc. apply nodup_app_intro; [exact NDps | exact Sn |].
      intros k I J. apply Sk in J. apply in_app_or in I. destruct I as [I|I].
      + rewrite <- NP_names in I. apply in_map_iff in I. destruct I as [p [<- I]]. assert (X := LT p (In_ps _ (or_introl I))). lia.
      + apply in_map_iff in I. destruct I as [p [<- I]]. assert (X := LT p (In_ps _ (or_intror I))). lia. }
  repeat split.
  - rewrite <- (dsets_app value l1 l2), <- (dsets_app value (l1 ++ l2) SUR), <- (dsets_app value ((l1 ++ l2) ++ SUR) l3), <- !app_assoc.
    exact (dsets_fresh value _ [] NDall).
  - intros k I E. subst k. rewrite KA in I. apply in_app_or in I. destruct I as [I|I].
    + apply in_sig_names in I. congruence.
    + apply in_app_or in I. destruct I as [I|I]; [|apply in_app_or in I; destruct I as [I|I]].
      * rewrite K2 in I. apply in_map_iff in I. destruct I as [p [E I]]. apply firstn_In in I.
        rewrite <- E, (In_declared value dc p (In_ps _ (or_intror I))) in DS. discriminate.
      * apply Sk in I. unfold self_name in I. lia.
      * rewrite K3 in I. apply in_map_iff in I. destruct I as [p [E I]]. apply skipn_In in I.
        rewrite <- E, (In_declared value dc p (In_ps _ (or_intror I))) in DS. discriminate.
  - rewrite K1. exact NDn.
  - exact K1.
  - rewrite !map_app, Sv. destruct Alt as [[_ E]|[E _]]; rewrite E; cbn [map app]; now rewrite ?app_nil_r.
Qed.

Lemma run_star_ok : forall is_async l1 l2 l3,
  snd (seqm I1) = WOk l1 -> too_many = false -> snd (seqm I2) = WOk l2 -> snd (seqm I3) = WOk l3 ->
  snd (vrun is_async c) = FBodyStar l1 (map snd l2 ++ map snd l3 ++ sur).
Proof.
  intros is_async l1 l2 l3 S1 T S2 S3.
  destruct (result_list _ _ _ S1 T S2 S3) as (RL & NSelf & ND1 & K1 & MV).
  destruct dom_parts as (VP & MD & IG & KW & PP & NS & NDp & NDn & EN & LE & DS & LT).
  assert (W : snd (wrapper_content value is_none rcfg rr sg env dc c) = WOk (l1 ++ l2 ++ SUR ++ l3)).
  { rewrite wc_star. unfold wc_star_res. rewrite S1, T, S2, S3, RL. reflexivity. }
  unfold run. destruct (wrapper_content value is_none rcfg rr sg env dc c) as [j w]. cbn [snd] in W. subst w.
  set (R2 := l2 ++ SUR ++ l3) in *. set (r := l1 ++ R2) in *.
  assert (Dself : dget self_name r = None) by (apply dget_None_keys; intro I; exact (NSelf _ I eq_refl)).
  assert (CV : conv_run value is_none rcfg sg (conv_steps value rcfg dc is_async) r = Some (map snd r, [])).
  { unfold conv_steps. rewrite MD.
    destruct is_async; cbn [reference_cfg cv_sync cv_async reference_conv cv_args conv_run]; rewrite Dself; unfold as_args;
      rewrite VP; reflexivity. }
  rewrite CV. unfold py_bind. rewrite VP, PP. cbn [negb andb existsb]. unfold unknown_key. cbn [existsb]. rewrite andb_false_r.
  fold names. unfold r at 1. rewrite map_app. unfold keys in K1. rewrite <- K1, combine_fst_snd, app_nil_r.
  fold P. rewrite (fill_exact P l1 l1).
  - cbn [filter snd]. rewrite app_nil_r. f_equal. unfold r. rewrite map_app.
    replace (List.length P) with (List.length (map fst l1)) by (rewrite K1; apply names_len).
    now rewrite skipn_map_snd_app, MV.
  - exact K1.
  - intros [k v] I. cbn [fst snd]. apply In_dget_nodup; assumption.
Qed.

(* ---------- the specification on this domain ---------- *)
Definition sitem (ap : value * param) : name * expect value :=
  (p_name (snd ap), of_verdict value is_none dc (p_name (snd ap)) (spec_param value is_none (snd ap) (fst ap))).
Definition ditem (p : param) : name * expect value := (p_name p, sdecl p).
Definition raises_of (l : list (name * expect value)) : list (exn * option name) :=
  flat_map (fun ne => match snd ne with ERaise e pn => [(e, pn)] | _ => [] end) l.
Definition values_of (l : list (name * expect value)) : list value :=
  flat_map (fun ne => match snd ne with EValue v => [v] | _ => [] end) l.
Definition surplus_raises : list (exn * option name) :=
  match sur with _ :: _ => if d_strict dc then [(TooManyArgumentsC, @None name)] else [] | [] => [] end.

Lemma posnames : positional_names value sg = names.
Proof.
  destruct dom_parts as (_ & _ & _ & _ & PP & _). unfold positional_names.
  change (filter (fun sp : sigparam value => negb (sp_kwonly sp)) (s_params sg)) with (pos_params value sg). now rewrite PP.
Qed.

Lemma filter_in_sig : filter (fun p : param => in_sig value sg (p_name p)) (d_params dc) = NP.
Proof.
  fold ps. rewrite ps_split, filter_app. rewrite (filter_false _ _ SP); [|intros p I; now apply SP_not_in_sig].
  rewrite app_nil_r. apply filter_true. intros p I. now apply NP_in_sig.
Qed.

Lemma spec_star_unfold :
  spec_star_outcome value is_none sg dc c =
  let raises := raises_of (map ditem NP ++ map sitem (combine ex SP) ++ map ditem (skipn (List.length ex) SP)) ++ surplus_raises in
  match raises with
  | _ :: _ => DSRaise raises
  | [] => match demanded_binding value (map ditem NP) P with
          | None => DSPythonRejects
          | Some b => DSBody b (values_of (map sitem (combine ex SP) ++ map ditem (skipn (List.length ex) SP)) ++ sur)
          end
  end.
Proof.
  unfold spec_star_outcome. rewrite posnames, names_len, filter_in_sig, star_is_SP. fold ex. fold sur. reflexivity.
Qed.

Lemma supplied_eq : supplied value sg dc c = combine names (c_args c).
Proof.
  destruct dom_parts as (_ & _ & IG & KW & _). unfold supplied. now rewrite IG, KW, posnames, app_nil_r.
Qed.

Lemma of_verdict_args : forall k (r : verdict value),
  of_verdict value is_none dc k r = match r with VPass v => EValue v | VReject => ERaise ParameterExceptionC (Some k) | VForeign e => ERaise e None end.
Proof. destruct dom_parts as (_ & MD & _). intros k [v| |e]; cbn; try reflexivity. unfold drop_none. now rewrite MD. Qed.

Lemma drop_args : forall x, drop_none value is_none dc x = x.
Proof. destruct dom_parts as (_ & MD & _). intro x. unfold drop_none. now rewrite MD. Qed.

(* ---------- item by item ---------- *)
Definition as_values (l : dict) : list (name * expect value) := map (fun kv => (fst kv, EValue (snd kv))) l.

Lemma raises_values : forall l, raises_of (as_values l) = [].
Proof. induction l as [|kv l IH]; [reflexivity | exact IH]. Qed.

Lemma values_values : forall l, values_of (as_values l) = map snd l.
Proof. induction l as [|kv l IH]; [reflexivity|]. cbn. now rewrite <- IH. Qed.

Lemma zs_ok : forall L l, snd (seqm (map zitem L)) = WOk l -> map sitem L = as_values l.
Proof.
  induction L as [|[a p] L IH]; intros l H.
  - cbn in H. injection H as <-. reflexivity.
  - cbn [map ValidateRef.seqm zitem fst snd] in H. apply mbind_ok_inv in H. destruct H as [v [Hv H]].
    apply mbind_ok_inv in H. destruct H as [l' [Hl H]]. cbn in H. injection H as <-.
    unfold as_values. cbn [map fst snd]. f_equal; [|exact (IH l' Hl)]. unfold sitem. cbn [fst snd]. f_equal.
    rewrite pv_spec in Hv. apply of_verdict_ok in Hv. now rewrite of_verdict_args, Hv.
Qed.

Lemma zs_raise : forall L e pn, (forall ap, In ap L -> In (snd ap) (d_params dc)) -> snd (seqm (map zitem L)) = WRaise e pn ->
  raise_allowed e pn (raises_of (map sitem L)).
Proof.
  intros L e pn HL H. apply seqm_raise_inv in H. destruct H as [it [I Hs]]. apply in_map_iff in I. destruct I as [[a p] [<- I]].
  cbn [zitem fst snd] in Hs. rewrite pv_spec in Hs.
  assert (J : In (sitem (a, p)) (map sitem L)) by now apply in_map.
  unfold sitem in J. cbn [fst snd] in J. rewrite of_verdict_args in J.
  destruct (spec_param value is_none p a) as [v| |y]; cbn in Hs; [discriminate| |]; injection Hs as <- <-.
  - exists ParameterExceptionC, (Some (p_name p)). split; [|split; [apply Exc; exact (HL _ I) | now right]].
    unfold raises_of. apply in_flat_map. eexists. split; [exact J | now left].
  - exists y, None. split; [|split; [apply derives_refl | now left]].
    unfold raises_of. apply in_flat_map. eexists. split; [exact J | now left].
Qed.

Lemma combine_app_exact : forall A B (l : list A) (h t : list B), List.length h = List.length l -> combine l (h ++ t) = combine l h.
Proof. induction l as [|x l IH]; intros [|y h] t L; try discriminate; [reflexivity|]. cbn. f_equal. apply IH. now injection L. Qed.

Lemma keys_combine : forall (l : list name) (h : list value), List.length h = List.length l -> keys (combine l h) = l.
Proof. induction l as [|x l IH]; intros [|y h] L; try discriminate; [reflexivity|]. cbn. f_equal. apply IH. now injection L. Qed.

Lemma in_combine_flip : forall (h : list value) (l : list param) a p, In (a, p) (combine h l) -> In (p_name p, a) (combine (map (@p_name value) l) h).
Proof.
  induction h as [|y h IH]; intros [|q l] a p I; try contradiction. cbn in *. destruct I as [I|I]; [injection I as -> ->; now left | right; auto].
Qed.

Lemma sdecl_named : forall a p, In (a, p) (combine hd NP) ->
  sdecl p = of_verdict value is_none dc (p_name p) (spec_param value is_none p a).
Proof.
  intros a p I. unfold spec_declared, spec_source. rewrite assoc_dget, supplied_eq.
  destruct args_split as [EA LH]. destruct dom_parts as (_ & _ & _ & _ & _ & _ & _ & NDn & _).
  assert (L : List.length hd = List.length names) by (now rewrite names_len).
  assert (G : dget (p_name p) (combine names (c_args c)) = Some a); [|now rewrite G].
  rewrite EA, (combine_app_exact _ _ names hd ex L). apply In_dget_nodup.
  - now rewrite (keys_combine names hd L).
  - rewrite <- NP_names. now apply in_combine_flip.
Qed.

Lemma named_items : map ditem NP = map sitem (combine hd NP).
Proof.
  assert (L : List.length hd = List.length NP) by (destruct args_split as [_ L]; now rewrite L, NP_len).
  assert (G : forall (h : list value) (l : list param), List.length h = List.length l ->
              (forall a p, In (a, p) (combine h l) -> sdecl p = of_verdict value is_none dc (p_name p) (spec_param value is_none p a)) ->
              map ditem l = map sitem (combine h l)).
  { induction h as [|y h IH]; intros [|q l] E H; try discriminate; [reflexivity|]. cbn [combine map]. f_equal.
    - unfold ditem, sitem. cbn [fst snd]. f_equal. apply H. now left.
    - apply IH; [now injection E|]. intros a p I. apply H. now right. }
  apply G; [exact L | apply sdecl_named].
Qed.

Lemma SP_absent : forall p, In p SP -> dget (p_name p) (supplied value sg dc c) = None.
Proof.
  intros p I. rewrite supplied_eq. apply dget_None_keys. intro J. unfold keys in J.
  assert (K : In (p_name p) names).
  { apply in_map_iff in J. destruct J as [[k v] [E J]]. cbn in E. subst k. eapply in_combine_l. exact J. }
  apply in_sig_names in K. rewrite (SP_not_in_sig _ I) in K. discriminate.
Qed.

Lemma ditem_ok : forall p v, In p SP -> snd (u_m p) = WOk v -> sdecl p = EValue v.
Proof.
  intros p v I H. unfold spec_declared, spec_source. rewrite assoc_dget, (SP_absent _ I).
  assert (C : snd (cascade_m value sg p) = WOk v ->
              (if spec_required value p then ERaise ValidateExceptionC None
               else match p_default p with
                    | Some d => drop_none value is_none dc (EValue d)
                    | None => match spec_sig_default value sg (p_name p) with
                              | Some d => drop_none value is_none dc (EValue d)
                              | None => ERaise ValidateExceptionC None
                              end
                    end) = EValue v).
  { unfold cascade_m. rewrite req_spec. destruct (spec_required value p); [discriminate|].
    destruct (p_default p) as [d|]; [cbn; intro X; injection X as <-; apply drop_args|].
    change (spec_sig_default value sg (p_name p)) with (sig_default value sg (p_name p)).
    destruct (sig_default value sg (p_name p)) as [d|]; [cbn; intro X; injection X as <-; apply drop_args | discriminate]. }
  unfold ValidateRef.u_m in H. destruct (p_ext p) as [x|]; [|auto].
  destruct (e_has x); [|auto]. destruct (e_load x) as [w|y]; [|discriminate].
  rewrite pv_spec in H. apply of_verdict_ok in H. now rewrite of_verdict_args, H.
Qed.

Lemma ditem_raise : forall p e pn, In p SP -> snd (u_m p) = WRaise e pn ->
  exists e' pn', sdecl p = ERaise e' pn' /\ derives e e' = true /\ (pn' = None \/ pn' = pn).
Proof.
  intros p e pn I H. assert (Ip := In_ps p (or_intror I)). unfold spec_declared, spec_source. rewrite assoc_dget, (SP_absent _ I).
  assert (DV : derives (p_exc p) ValidateExceptionC = true) by (eapply derives_trans; [apply Exc; exact Ip | reflexivity]).
  assert (C : snd (cascade_m value sg p) = WRaise e pn ->
              exists e' pn',
              (if spec_required value p then ERaise ValidateExceptionC None
               else match p_default p with
                    | Some d => drop_none value is_none dc (EValue d)
                    | None => match spec_sig_default value sg (p_name p) with
                              | Some d => drop_none value is_none dc (EValue d)
                              | None => ERaise ValidateExceptionC None
                              end
                    end) = ERaise e' pn' /\ derives e e' = true /\ (pn' = None \/ pn' = pn)).
  { unfold cascade_m. rewrite req_spec. destruct (spec_required value p).
    - cbn. intro X. injection X as <- <-. exists ValidateExceptionC, None. repeat split; auto.
    - destruct (p_default p) as [d|]; [discriminate|].
      change (spec_sig_default value sg (p_name p)) with (sig_default value sg (p_name p)).
      destruct (sig_default value sg (p_name p)) as [d|]; [discriminate|]. cbn. intro X. injection X as <- <-.
      exists ValidateExceptionC, None. repeat split; auto. }
  unfold ValidateRef.u_m in H. destruct (p_ext p) as [x|]; [|auto].
  destruct (e_has x); [|auto]. destruct (e_load x) as [w|y].
  - rewrite pv_spec in H. rewrite of_verdict_args. destruct (spec_param value is_none p w) as [v| |y]; cbn in H; [discriminate| |].
    + injection H as <- <-. exists ParameterExceptionC, (Some (p_name p)). repeat split; auto.
    + injection H as <- <-. exists y, None. repeat split; auto using derives_refl.
  - cbn in H. injection H as <- <-. exists y, None. repeat split; auto using derives_refl.
Qed.

Lemma us_ok : forall L l, (forall p, In p L -> In p SP) -> snd (seqm (uitems value is_none sg L)) = WOk l -> map ditem L = as_values l.
Proof.
  induction L as [|p L IH]; intros l HL H.
  - cbn in H. injection H as <-. reflexivity.
  - cbn [uitems map ValidateRef.seqm] in H. apply mbind_ok_inv in H. destruct H as [v [Hv H]].
    apply mbind_ok_inv in H. destruct H as [l' [Hl H]]. cbn in H. injection H as <-.
    unfold as_values. cbn [map fst snd]. f_equal.
    + unfold ditem. f_equal. apply ditem_ok; [apply HL; now left | exact Hv].
    + apply IH; [intros q I; apply HL; now right | exact Hl].
Qed.

Lemma us_raise : forall L e pn, (forall p, In p L -> In p SP) -> snd (seqm (uitems value is_none sg L)) = WRaise e pn ->
  raise_allowed e pn (raises_of (map ditem L)).
Proof.
  intros L e pn HL H. apply seqm_raise_inv in H. destruct H as [it [I Hs]]. unfold uitems in I. apply in_map_iff in I.
  destruct I as [p [<- I]]. cbn [snd] in Hs. destruct (ditem_raise _ _ _ (HL _ I) Hs) as (e' & pn' & Sd & De & Pn).
  exists e', pn'. split; [|auto]. unfold raises_of. apply in_flat_map. exists (ditem p). split; [now apply in_map|].
  unfold ditem. cbn [snd]. rewrite Sd. now left.
Qed.

(* ---------- the theorem ---------- *)
Lemma run_star_raise : forall is_async e pn, wc_star_res = WRaise e pn -> snd (vrun is_async c) = FRaise e pn.
Proof.
  intros is_async e pn H. rewrite <- wc_star in H. unfold run.
  destruct (wrapper_content value is_none rcfg rr sg env dc c) as [j w]. cbn [snd] in H. now subst w.
Qed.

Lemma allowed_l : forall e pn a b, raise_allowed e pn a -> raise_allowed e pn (a ++ b).
Proof. intros e pn a b (e' & pn' & I & H). exists e', pn'. split; [apply in_or_app; now left | exact H]. Qed.

Lemma allowed_r : forall e pn a b, raise_allowed e pn b -> raise_allowed e pn (a ++ b).
Proof. intros e pn a b (e' & pn' & I & H). exists e', pn'. split; [apply in_or_app; now right | exact H]. Qed.

Lemma raises_app : forall a b, raises_of (a ++ b) = raises_of a ++ raises_of b.
Proof. intros. unfold raises_of. apply flat_map_app. Qed.

Lemma values_app : forall a b, values_of (a ++ b) = values_of a ++ values_of b.
Proof. intros. unfold values_of. apply flat_map_app. Qed.

Lemma binding_exact : forall (ps' : list (sigparam value)) (l : dict) ds,
  map fst l = map (@sp_name value) ps' -> (forall kv, In kv l -> demand_of value (fst kv) ds = EValue (snd kv)) ->
  demanded_binding value ds ps' = Some l.
Proof.
  induction ps' as [|sp ps' IH]; intros [|[k v] l] ds E H; try discriminate; [reflexivity|]. cbn in E. injection E as E1 E2.
  cbn [demanded_binding]. subst k. assert (X := H (sp_name sp, v) (or_introl eq_refl)). cbn [fst snd] in X. rewrite X.
  rewrite (IH l ds E2); [reflexivity|]. intros kv I. apply H. now right.
Qed.

Theorem run_meets_spec_star : forall is_async,
  match spec_star_outcome value is_none sg dc c with
  | DSRaise rs => exists e pn, snd (vrun is_async c) = FRaise e pn /\ raise_allowed e pn rs
  | DSPythonRejects => False
  | DSBody b star => snd (vrun is_async c) = FBodyStar b star
  end.
Proof.
  intro is_async. rewrite spec_star_unfold. cbv zeta. rewrite !raises_app, named_items.
  assert (H1 : forall ap, In ap (combine hd NP) -> In (snd ap) (d_params dc)).
  { intros [a p] I. apply In_ps. left. eapply in_combine_r. exact I. }
  assert (H2 : forall ap, In ap (combine ex SP) -> In (snd ap) (d_params dc)).
  { intros [a p] I. apply In_ps. right. eapply in_combine_r. exact I. }
  assert (H3 : forall p, In p (skipn (List.length ex) SP) -> In p SP) by (intros p I; eapply skipn_In; exact I).
  assert (Fail : forall e pn rs, raise_allowed e pn rs -> wc_star_res = WRaise e pn ->
            match rs with
            | _ :: _ => match rs with _ :: _ => exists e0 pn0, snd (vrun is_async c) = FRaise e0 pn0 /\ raise_allowed e0 pn0 rs | [] => True end
            | [] => False
            end).
  { intros e pn rs A W. destruct rs as [|x rs]; [destruct A as (? & ? & [] & _)|]. exists e, pn. split; [now apply run_star_raise | exact A]. }
  set (RS := (raises_of (map sitem (combine hd NP)) ++ raises_of (map sitem (combine ex SP)) ++
              raises_of (map ditem (skipn (List.length ex) SP))) ++ surplus_raises).
  destruct (snd (seqm I1)) as [l1|e pn] eqn:S1.
  2:{ assert (A : raise_allowed e pn RS) by (apply allowed_l, allowed_l; apply zs_raise; assumption).
      assert (W : wc_star_res = WRaise e pn) by (unfold wc_star_res; now rewrite S1).
      specialize (Fail e pn RS A W). destruct RS; [contradiction | exact Fail]. }
  destruct too_many eqn:T.
  { assert (A : raise_allowed TooManyArgumentsC None RS).
    { apply allowed_r. unfold surplus_raises. unfold too_many in T. apply andb_true_iff in T. destruct T as [St Lt]. rewrite St.
      apply Nat.ltb_lt in Lt. destruct sur as [|x t] eqn:Es.
      - exfalso. assert (L : List.length sur = List.length ex - List.length SP) by (unfold sur; apply skipn_length). rewrite Es in L. cbn in L. lia.
      - exists TooManyArgumentsC, None. split; [now left | split; [reflexivity | now left]]. }
    assert (W : wc_star_res = WRaise TooManyArgumentsC None) by (unfold wc_star_res; now rewrite S1, T).
    specialize (Fail _ _ RS A W). destruct RS; [contradiction | exact Fail]. }
  destruct (snd (seqm I2)) as [l2|e pn] eqn:S2.
  2:{ assert (A : raise_allowed e pn RS) by (apply allowed_l, allowed_r, allowed_l; apply zs_raise; assumption).
      assert (W : wc_star_res = WRaise e pn) by (unfold wc_star_res; now rewrite S1, T, S2).
      specialize (Fail e pn RS A W). destruct RS; [contradiction | exact Fail]. }
  destruct (snd (seqm I3)) as [l3|e pn] eqn:S3.
  2:{ assert (A : raise_allowed e pn RS) by (apply allowed_l, allowed_r, allowed_r; apply us_raise; assumption).
      assert (W : wc_star_res = WRaise e pn) by (unfold wc_star_res; now rewrite S1, T, S2, S3).
      specialize (Fail e pn RS A W). destruct RS; [contradiction | exact Fail]. }
  (* everything passed *)
  unfold RS. rewrite (zs_ok _ _ S1), (zs_ok _ _ S2), (us_ok _ _ H3 S3), !raises_values. cbn [app].
  assert (SR : surplus_raises = []).
  { unfold surplus_raises. destruct sur as [|x t] eqn:Es; [reflexivity|]. unfold too_many in T.
    destruct (d_strict dc); [|reflexivity]. cbn in T. apply Nat.ltb_ge in T.
    assert (L : List.length sur = List.length ex - List.length SP) by (unfold sur; apply skipn_length). rewrite Es in L. cbn in L. lia. }
  rewrite SR.
  destruct (result_list _ _ _ S1 T S2 S3) as (_ & _ & ND1 & K1 & _).
  rewrite (binding_exact P l1 (as_values l1)).
  - rewrite values_app, !values_values, <- app_assoc. apply run_star_ok; assumption.
  - exact K1.
  - intros [k v] I. cbn [fst snd]. apply demand_of_in.
    + unfold as_values. rewrite map_map. cbn [fst]. exact ND1.
    + unfold as_values. apply in_map_iff. exists (k, v). auto.
Qed.

(* strict: a positional beyond the last Parameter - the body does not run, TooManyArguments is among the demanded *)
Theorem strict_star : forall is_async,
  d_strict dc = true ->
  List.length (star_params value sg dc) + List.length (positional_names value sg) < List.length (c_args c) ->
  exists rs, spec_star_outcome value is_none sg dc c = DSRaise rs /\ In (TooManyArgumentsC, None) rs /\
             exists e pn, snd (vrun is_async c) = FRaise e pn /\ raise_allowed e pn rs.
Proof.
  intros is_async St Lt. rewrite star_is_SP, posnames, names_len in Lt.
  assert (Ls : List.length sur = List.length (c_args c) - n - List.length SP).
  { unfold sur, ex. now rewrite !skipn_length. }
  assert (SR : surplus_raises = [(TooManyArgumentsC, None)]).
  { unfold surplus_raises. rewrite St. destruct sur; [cbn in Ls; lia | reflexivity]. }
  assert (M := run_meets_spec_star is_async). rewrite spec_star_unfold in *. cbv zeta in *. rewrite SR in *.
  match goal with |- context [match ?R ++ [(TooManyArgumentsC, None)] with _ => _ end] => set (RS := R ++ [(TooManyArgumentsC, @None name)]) in * end.
  assert (I : In (TooManyArgumentsC, @None name) RS) by (unfold RS; apply in_or_app; right; now left).
  destruct RS as [|x rs]; [destruct I|]. exists (x :: rs). split; [reflexivity | split; [exact I | exact M]].
Qed.

End Star.
