(* The member of the decorator family for which C10/C11 are proved, the decidable test that the
   regenerated program is this member, and the simplification of the model under it. *)
From Coq Require Import List ZArith Bool Arith Lia.
From PV Require Import Base.Exn Model.Dataclass.
Import ListNotations.

Definition ref_prog (defs : list (dparam * bool)) : prog := {|
  p_defaults := defs;
  p_shortcut := [(PTypeSafe, true)];
  p_args := {| a_frozen := ALit true; a_order := AParam POrder; a_kw_only := AParam PKwOnly; a_slots := AParam PSlots |};
  p_ts := Some {| ts_steps := [SCallOld; SGetContext; SValidate]; ts_install_before := true |};
  p_copy := CopyReplace;
  p_deep := {| d_deepcopy := true; d_filter_init := true; d_ctor := CtorTypeSelf; d_merge := MergeKwLast |};
  p_validate := {| v_fields := FieldsNewClass; v_lo := None; v_hi := None; v_guard := None |};
  p_methods := [MCopyWith; MDeepCopyWith; MValidateTypes] |}.

Definition prog_eq_dec : forall a b : prog, {a = b} + {a <> b}.
Proof.
  repeat (decide equality; try apply Z.eq_dec; try apply bool_dec; try apply Nat.eq_dec).
Defined.

(* the defaults of frozen_dataclass's own parameters are free *)
Definition prog_good (P : prog) : bool :=
  if prog_eq_dec P (ref_prog (p_defaults P)) then true else false.

Lemma prog_good_eq : forall P, prog_good P = true -> P = ref_prog (p_defaults P).
Proof. intros P H. unfold prog_good in H. destruct (prog_eq_dec P (ref_prog (p_defaults P))); [assumption|discriminate]. Qed.

Lemma py_slice_all : forall A (l : list A), py_slice None None l = l.
Proof.
  intros. unfold py_slice. rewrite Z.sub_0_r, Nat2Z.id. simpl. apply firstn_all.
Qed.

Section Ref.
  Variable defs : list (dparam * bool).
  Let P := ref_prog defs.
  Variable check : bool -> heap -> ann -> value -> outcome unit.

  Lemma ref_frozen : forall L, eff_frozen P L = true.
  Proof. reflexivity. Qed.
  Lemma ref_sel : forall fs, sel_fields P fs = fs.
  Proof. intro. unfold sel_fields. simpl. apply py_slice_all. Qed.
  Lemma ref_validate : forall vis C r,
    validate_types P check vis C r =
    match nearest_deco C with None => raise AttributeErrorC | Some D => check_loop check vis (dc_fields D) r end.
  Proof. intros. unfold validate_types. simpl. destruct (nearest_deco C); [rewrite ref_sel|]; reflexivity. Qed.
  Lemma ref_run_new : forall old v outer (val : bool -> M unit) (set : name -> value -> M unit),
    run_pi P (PFNew old) v outer val set =
    bindM (run_pi P old v (S outer) val set) (fun _ => bindM (val (caller_visible v outer)) (fun _ => ret tt)).
  Proof. reflexivity. Qed.
  Lemma ref_install : install_before P = true.
  Proof. reflexivity. Qed.
  Lemma ref_ts_installed : forall L, ts_installed P L = decorated L && param_of P L PTypeSafe.
  Proof. intro. unfold ts_installed. simpl. now rewrite andb_true_r. Qed.
End Ref.
