(* C10 / C11: a well-formed request is never refused by dataclasses - the candidate object exists on all three
   construction paths (constructor, copy_with = dataclasses.replace, deep_copy_with = constructor on deep copies of the
   init fields); whether it is returned is then decided by __post_init__ alone.  Reference member of the family. *)
From Coq Require Import List ZArith Bool Arith Lia.
From PV Require Import Base.Exn Model.Dataclass Spec.DataclassSpec Proofs.DataclassBase Proofs.DataclassRef
  Proofs.DataclassC10 Proofs.DataclassC11.
Import ListNotations.

Lemma in_lookup_some : forall B (l : list (name * B)) n v, In (n, v) l -> lookup l n <> None.
Proof.
  intros B l n v H. intro E. apply lookup_none_notin in E. apply E. apply in_map_iff. now exists (n, v).
Qed.

Lemma same_name_same_field : forall fs f g, NoDup (map f_name fs) -> In f fs -> In g fs -> f_name f = f_name g -> f = g.
Proof.
  induction fs as [|x l IH]; intros f g ND Hf Hg E; [destruct Hf|].
  simpl in ND. inversion ND as [|? ? Hx ND']; subst.
  destruct Hf as [Hf|Hf], Hg as [Hg|Hg]; subst.
  - reflexivity.
  - exfalso. apply Hx. rewrite E. now apply in_map.
  - exfalso. apply Hx. rewrite <- E. now apply in_map.
  - now apply IH.
Qed.

Lemma kw_unexpected_request : forall fs kw, kw_unexpected fs kw = negb (request_ok fs kw).
Proof.
  intros fs kw. unfold kw_unexpected, request_ok. induction kw as [|nv kw IH]; simpl; [reflexivity|].
  rewrite IH. now rewrite negb_andb.
Qed.
Lemma kw_missing_required : forall fs kw, kw_missing fs kw = negb (required_given fs kw).
Proof.
  intros fs kw. unfold kw_missing, required_given. induction fs as [|f fs IH]; simpl; [reflexivity|].
  rewrite IH. rewrite negb_andb. f_equal.
  destruct (f_init f), (is_dnone (f_default f)), (mem (f_name f) (map fst kw)); reflexivity.
Qed.

Lemma lookup_mem : forall B (kw : list (name * B)) n, mem n (map fst kw) = is_some (lookup kw n).
Proof.
  intros B kw n. destruct (lookup kw n) eqn:E; simpl.
  - apply mem_In. destruct (in_dec Nat.eq_dec n (map fst kw)) as [H|H]; [assumption|].
    apply lookup_none_notin in H. congruence.
  - apply mem_false. now apply lookup_none_notin.
Qed.

(* ---- the generated __init__ accepts every complete keyword assignment *)
Lemma build_attrs_ok : forall fs kw, kw_missing fs kw = false ->
  forall st, exists st' attrs, build_attrs fs kw st = (st', Ok attrs).
Proof.
  induction fs as [|f fs IH]; intros kw Hm st.
  - exists st, []. reflexivity.
  - unfold kw_missing in Hm. simpl in Hm. apply orb_false_iff in Hm as [Hf Hm].
    assert (Hv : exists s1 ov, field_value f kw st = (s1, Ok ov)).
    { unfold field_value. destruct (f_init f) eqn:Ei.
      - destruct (lookup kw (f_name f)) as [v|] eqn:El; [now exists st, (Some v)|].
        unfold from_default. rewrite Ei. destruct (f_default f) as [|v|k] eqn:Ed.
        + exfalso. simpl in Hf. rewrite lookup_mem, El in Hf. discriminate.
        + now exists st, (Some v).
        + eexists. eexists. reflexivity.
      - unfold from_default. rewrite Ei. destruct (f_default f) as [|v|k].
        + now exists st, None.
        + now exists st, (Some v).
        + eexists. eexists. reflexivity. }
    destruct Hv as [s1 [ov Hv]]. destruct (IH kw Hm s1) as [s2 [rest Hr]].
    simpl. unfold bindM at 1. rewrite Hv. unfold bindM at 1. rewrite Hr. eexists. eexists. reflexivity.
Qed.

Lemma candidate_ok : forall C D kw st, nearest_deco C = Some D ->
  kw_unexpected (dc_fields C) kw = false -> kw_missing (dc_fields C) kw = false ->
  exists st1 r, candidate C kw st = (st1, Ok r).
Proof.
  intros C D kw st HD Hu Hm. unfold candidate. rewrite HD, (nearest_deco_fields _ _ HD), Hu, Hm.
  destruct (build_attrs_ok _ _ Hm st) as [s1 [attrs Hb]]. unfold bindM. rewrite Hb. eexists. eexists. reflexivity.
Qed.

(* ---- dataclasses.replace accepts replacements of init fields on a complete receiver *)
Lemma replace_changes_ok : forall fs r kw st,
  (forall f, In f fs -> f_init f = false -> mem (f_name f) (map fst kw) = false) ->
  (forall f, In f fs -> f_init f = true -> getattr (s_heap st) r (f_name f) <> None) ->
  forall changes, exists ch, replace_changes fs r kw changes st = (st, Ok ch).
Proof.
  induction fs as [|f fs IH]; intros r kw st H1 H2 changes; simpl.
  - now exists changes.
  - destruct (f_init f) eqn:Ei; simpl.
    + destruct (lookup changes (f_name f)).
      * apply IH; intros g Hg; [apply H1|apply H2]; now right.
      * unfold bindM at 1. unfold getattrM.
        destruct (getattr (s_heap st) r (f_name f)) as [v|] eqn:Eg; [|exfalso; eapply H2; [now left|assumption|exact Eg]].
        apply IH; intros g Hg; [apply H1|apply H2]; now right.
    + rewrite (H1 f (or_introl eq_refl) Ei). apply IH; intros g Hg; [apply H1|apply H2]; now right.
Qed.

Lemma request_no_init_false : forall fs kw, NoDup (map f_name fs) -> request_ok fs kw = true ->
  forall f, In f fs -> f_init f = false -> mem (f_name f) (map fst kw) = false.
Proof.
  intros fs kw ND Hr f Hf Hi. apply mem_false. intro Hin. apply in_map_iff in Hin as [[n v] [E Hin]]. simpl in E. subst n.
  unfold request_ok in Hr. rewrite forallb_forall in Hr. specialize (Hr _ Hin). simpl in Hr.
  apply existsb_exists in Hr as [g [Hg Hb]]. apply andb_true_iff in Hb as [Hb1 Hb2]. apply Nat.eqb_eq in Hb1.
  assert (g = f) by (eapply same_name_same_field; eassumption). subst g. congruence.
Qed.

Lemma receiver_ok_getattr : forall fs h r, receiver_ok fs h r = true ->
  forall f, In f fs -> f_init f = true -> getattr h r (f_name f) <> None.
Proof.
  intros fs h r H f Hf Hi. unfold receiver_ok in H. rewrite forallb_forall in H. specialize (H f Hf).
  rewrite Hi in H. simpl in H. destruct (getattr h r (f_name f)); [discriminate|discriminate H].
Qed.

(* keys accepted: every key of the arguments names an init field; none missing: every init field is a key *)
Lemma args_accepted : forall fs (args : list (name * value)),
  (forall n, lookup args n <> None -> exists f, In f fs /\ f_init f = true /\ f_name f = n) ->
  (forall f, In f fs -> f_init f = true -> lookup args (f_name f) <> None) ->
  kw_unexpected fs args = false /\ kw_missing fs args = false.
Proof.
  intros fs args H1 H2. split.
  - destruct (kw_unexpected fs args) eqn:E; [|reflexivity]. exfalso. unfold kw_unexpected in E.
    apply existsb_exists in E as [[n v] [Hin Hb]]. simpl in Hb. apply negb_true_iff in Hb.
    destruct (H1 n (in_lookup_some _ _ _ _ Hin)) as [f [Hf [Hi Hn]]].
    assert (X : existsb (fun f0 => Nat.eqb (f_name f0) n && f_init f0) fs = true).
    { apply existsb_exists. exists f. split; [assumption|]. now rewrite Hn, Nat.eqb_refl, Hi. }
    congruence.
  - destruct (kw_missing fs args) eqn:E; [|reflexivity]. exfalso. unfold kw_missing in E.
    apply existsb_exists in E as [f [Hf Hb]]. apply andb_true_iff in Hb as [Hb Hb3]. apply andb_true_iff in Hb as [Hb1 Hb2].
    apply negb_true_iff in Hb3. rewrite lookup_mem in Hb3. specialize (H2 f Hf Hb1).
    destruct (lookup args (f_name f)); [discriminate|congruence].
Qed.

Lemma dict_set_keys : forall d k v n, lookup (dict_set d k v) n <> None <-> (k = n \/ lookup d n <> None).
Proof.
  intros. rewrite lookup_dict_set. destruct (Nat.eqb k n) eqn:E.
  - apply Nat.eqb_eq in E. split; [now left|discriminate].
  - apply Nat.eqb_neq in E. split; [now right|]. intros [X|X]; [contradiction|assumption].
Qed.
Lemma dict_merge_keys : forall b a n, lookup (dict_merge a b) n <> None <-> (lookup a n <> None \/ lookup b n <> None).
Proof.
  unfold dict_merge. induction b as [|[k v] b IH]; intros a n; simpl.
  - split; [now left|]. intros [X|X]; [assumption|]. now elim X.
  - rewrite IH, dict_set_keys, lookup_cons. destruct (Nat.eqb k n) eqn:E.
    + apply Nat.eqb_eq in E. split; [intros _; right; discriminate|intros _; left; now left].
    + apply Nat.eqb_neq in E. tauto.
Qed.

Section Succeeds.
  Variable defs : list (dparam * bool).
  Let P := ref_prog defs.
  Variable check : bool -> heap -> ann -> value -> outcome unit.

  Lemma current_values_ok : forall h r sel,
    (forall f, In f sel -> getattr h r (f_name f) <> None) ->
    forall st, (exists e0, s_heap st = h ++ e0) ->
    exists st1 cur, current_values P sel r st = (st1, Ok cur) /\ map fst cur = map f_name sel.
  Proof.
    intros h r. induction sel as [|f sel IH]; intros Hg st [e0 He0].
    - exists st, []. split; reflexivity.
    - destruct (getattr h r (f_name f)) as [v|] eqn:Eg; [|exfalso; eapply Hg; [now left|exact Eg]].
      assert (Eg' : getattr (s_heap st) r (f_name f) = Some v).
      { rewrite He0. rewrite getattr_app; [assumption|]. eapply getattr_lt. eassumption. }
      simpl. unfold bindM at 1. unfold getattrM. rewrite Eg'.
      change (d_deepcopy (p_deep P)) with true. cbv iota. unfold bindM at 1. unfold deepcopyM, deepcopy.
      set (s1 := mkSt (s_heap st ++ map (shift_o (s_heap st) (List.length (s_heap st))) (s_heap st)) (s_journal st)).
      destruct (IH (fun g Hg' => Hg g (or_intror Hg')) s1) as [s2 [tl [Ht Hk]]].
      { exists (e0 ++ map (shift_o (s_heap st) (List.length (s_heap st))) (s_heap st)). unfold s1. cbn [s_heap].
        rewrite He0 at 1. now rewrite app_assoc. }
      unfold bindM at 1. rewrite Ht. eexists. eexists. split; [reflexivity|]. simpl. now rewrite Hk.
  Qed.

  (* the candidate exists for every well-formed request *)
  Lemma path_candidate_ok : forall C D p st, nearest_deco C = Some D ->
    path_request_ok (dc_fields C) p (s_heap st) = true ->
    exists st1 r, path_candidate P C p st = (st1, Ok r).
  Proof.
    intros C D p st HD Hreq. unfold path_candidate. destruct p as [kw|r0 kw|r0 kw]; cbn [path_args path_request_ok] in *;
      apply andb_true_iff in Hreq as [Hr1 Hr2].
    - unfold bindM, ret. eapply candidate_ok; [eassumption| |].
      + now rewrite kw_unexpected_request, Hr1.
      + now rewrite kw_missing_required, Hr2.
    - pose proof (request_no_init_false _ _ (dc_fields_nodup C) Hr1) as H1.
      pose proof (receiver_ok_getattr _ _ _ Hr2) as H2.
      destruct (replace_changes_ok _ r0 kw st H1 H2 kw) as [ch Hch].
      unfold bindM at 1. rewrite Hch.
      destruct (replace_changes_spec _ _ _ _ _ _ _ Hch) as [_ [RA [RB [RC _]]]].
      assert (Hreq : forall n, lookup kw n <> None -> exists f, In f (dc_fields C) /\ f_init f = true /\ f_name f = n).
      { intros n Hn. destruct (lookup kw n) as [v|] eqn:E; [|congruence]. apply lookup_some_in in E.
        unfold request_ok in Hr1. rewrite forallb_forall in Hr1. specialize (Hr1 _ E). simpl in Hr1.
        apply existsb_exists in Hr1 as [f [Hf Hb]]. apply andb_true_iff in Hb as [Hb1 Hb2]. apply Nat.eqb_eq in Hb1.
        now exists f. }
      destruct (args_accepted (dc_fields C) ch) as [Hu Hm].
      + intros n Hn. destruct (RC n Hn) as [X|X]; [now apply Hreq|assumption].
      + intros f Hf Hi. destruct (lookup kw (f_name f)) eqn:E.
        * rewrite RA; congruence.
        * now destruct (RB f Hf Hi E).
      + eapply candidate_ok; eassumption.
    - unfold deep_args. rewrite HD, (nearest_deco_fields _ _ HD).
      change (d_filter_init (p_deep P)) with true. change (d_merge (p_deep P)) with MergeKwLast. cbv iota.
      pose proof (receiver_ok_getattr _ _ _ Hr2) as H2.
      destruct (current_values_ok (s_heap st) r0 (filter f_init (dc_fields C))) with (st := st) as [s1 [cur [Hc Hk]]].
      { intros f Hf. apply filter_In in Hf as [Hf Hi]. now apply H2. }
      { exists []. now rewrite app_nil_r. }
      unfold bindM at 1. unfold bindM at 1. rewrite Hc. unfold ret.
      assert (Hcur : forall n, lookup cur n <> None <-> exists f, In f (dc_fields C) /\ f_init f = true /\ f_name f = n).
      { intro n. split.
        - intro Hn. destruct (lookup cur n) eqn:E; [|congruence]. apply lookup_some_in in E.
          assert (Hin : In n (map fst cur)) by (apply in_map_iff; now exists (n, v)).
          rewrite Hk in Hin. apply in_map_iff in Hin as [f [Hn' Hf]]. apply filter_In in Hf as [Hf Hi]. now exists f.
        - intros [f [Hf [Hi Hn]]] E. apply lookup_none_notin in E. apply E. rewrite Hk. apply in_map_iff.
          exists f. split; [assumption|]. apply filter_In. now split. }
      destruct (args_accepted (dc_fields C) (dict_merge cur kw)) as [Hu Hm].
      + intros n Hn. apply dict_merge_keys in Hn as [X|X]; [now apply Hcur|].
        destruct (lookup kw n) as [v|] eqn:E; [|congruence]. apply lookup_some_in in E.
        unfold request_ok in Hr1. rewrite forallb_forall in Hr1. specialize (Hr1 _ E). simpl in Hr1.
        apply existsb_exists in Hr1 as [f [Hf Hb]]. apply andb_true_iff in Hb as [Hb1 Hb2]. apply Nat.eqb_eq in Hb1.
        now exists f.
      + intros f Hf Hi. apply dict_merge_keys. left. apply Hcur. now exists f.
      + eapply candidate_ok; eassumption.
  Qed.

  (* the path returns an instance iff __post_init__ (user hooks, checks) accepts the candidate; classes whose generated
     __init__ does not call __post_init__ (no type-safe layer, no user hook) always do *)
  Lemma path_succeeds : forall C D p st, nearest_deco C = Some D ->
    path_request_ok (dc_fields C) p (s_heap st) = true ->
    exists st1 r, path_candidate P C p st = (st1, Ok r) /\
      (init_calls_pi P D = false -> run_path P check C p st = (st1, Ok r)) /\
      (init_calls_pi P D = true ->
         ((exists st', run_path P check C p st = (st', Ok r)) <->
          snd (post_init_run defs check C p r (s_heap st1)) = Ok tt) /\
         (forall st' x, run_path P check C p st = (st', Ok x) -> x = r)).
  Proof.
    intros C D p st HD Hreq. destruct (path_candidate_ok C D p st HD Hreq) as [st1 [r Hc]].
    exists st1, r. split; [assumption|]. split.
    - intro Hi. eapply path_outcome_quiet; eassumption.
    - intro Hi. unfold P in *. rewrite (path_outcome defs check C D p st st1 r HD Hi Hc).
      destruct (post_init_run defs check C p r (s_heap st1)) as [[ev h2] [[]|e]]; cbn [snd]; split.
      + split; [reflexivity|]. intros _. eexists. reflexivity.
      + intros st' x H. now inversion H.
      + split; [intros [st' H]; discriminate|discriminate].
      + intros st' x H. discriminate.
  Qed.
End Succeeds.
