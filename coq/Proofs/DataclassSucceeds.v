(* C10 / C11: a well-formed request is never refused by dataclasses - the candidate object exists on all three
   construction paths (constructor, copy_with = dataclasses.replace, deep_copy_with = constructor on deep copies of the
   init fields); whether it is returned is then decided by __post_init__ alone.  Reference member of the family. *)
From Coq Require Import List ZArith Bool Arith Lia.
From PV Require Import Base.Exn Model.Dataclass Spec.DataclassSpec Proofs.DataclassBase Proofs.DataclassRef
  Proofs.DataclassC10 Proofs.DataclassC11.
Import ListNotations.

Lemma in_lookup_some : forall B (l : list (name * B)) n v, In (n, v) l -> lookup l n <> None.
Proof.
  intros B l n v H. intro E. apply lookup_none_notin in E. apply E. apply in_map_iff. now exists (n, v).
Qed.

Lemma same_name_same_field : forall fs f g, NoDup (map f_name fs) -> In f fs -> In g fs -> f_name f = f_name g -> f = g.
Proof.
  induction fs as [|x l IH]; intros f g ND Hf Hg E; [destruct Hf|].
  simpl in ND. inversion ND as [|? ? Hx ND']; subst.
  destruct Hf as [Hf|Hf], Hg as [Hg|Hg]; subst.
  - reflexivity.
  - exfalso. apply Hx. rewrite E. now apply in_map.
  - exfalso. apply Hx. rewrite <- E. now apply in_map.
  - now apply IH.
Qed.

Lemma kw_unexpected_request : forall fs kw, kw_unexpected fs kw = negb (request_ok fs kw).
Proof.
  intros fs kw. unfold kw_unexpected, request_ok. induction kw as [|nv kw IH]; simpl; [reflexivity|].
  rewrite IH. now rewrite negb_andb.
Qed.
Lemma kw_missing_required : forall fs kw, kw_missing fs kw = negb (required_given fs kw).
Proof.
  intros fs kw. unfold kw_missing, required_given. induction fs as [|f fs IH]; simpl; [reflexivity|].
  rewrite IH. rewrite negb_andb. f_equal.
  destruct (f_init f), (is_dnone (f_default f)), (mem (f_name f) (map fst kw)); reflexivity.
Qed.

Lemma lookup_mem : forall B (kw : list (name * B)) n, mem n (map fst kw) = is_some (lookup kw n).
Proof.
  intros B kw n. destruct (lookup kw n) eqn:E; simpl.
  - apply mem_In. destruct (in_dec Nat.eq_dec n (map fst kw)) as [H|H]; [assumption|].
    apply lookup_none_notin in H. congruence.
  - apply mem_false. now apply lookup_none_notin.
Qed.

(* ---- the generated __init__ accepts every complete keyword assignment *)
Lemma build_attrs_ok : forall fs kw, kw_missing fs kw = false ->
  forall st, exists st' attrs, build_attrs fs kw st = (st', Ok attrs).
Proof.
  induction fs as [|f fs IH]; intros kw Hm st.
  - exists st, []. reflexivity.
  - unfold kw_missing in Hm. simpl in Hm. apply orb_false_iff in Hm as [Hf Hm].
    assert (Hv : exists s1 ov, field_value f kw st = (s1, Ok ov)).
    { unfold field_value. destruct (f_init f) eqn:Ei.
      - destruct (lookup kw (f_name f)) as [v|] eqn:El; [now exists st, (Some v)|].
        unfold from_default. rewrite Ei. destruct (f_default f) as [|v|k] eqn:Ed.
        + exfalso. simpl in Hf. rewrite lookup_mem, El in Hf. discriminate.
        + now exists st, (Some v).
        + eexists. eexists. reflexivity.
      - unfold from_default. rewrite Ei. destruct (f_default f) as [|v|k].
        + now exists st, None.
        + now exists st, (Some v).
        + eexists. eexists. reflexivity. }
    destruct Hv as [s1 [ov Hv]]. destruct (IH kw Hm s1) as [s2 [rest Hr]].
    simpl. unfold bindM at 1. rewrite Hv. unfold bindM at 1. rewrite Hr. eexists. eexists. reflexivity.
Qed.

Lemma candidate_ok : forall C D kw st, nearest_deco C = Some D ->
  kw_unexpected (dc_fields C) kw = false -> kw_missing (dc_fields C) kw = false ->
  exists st1 r, candidate C kw st = (st1, Ok r).
Proof.
  intros C D kw st HD Hu Hm. unfold candidate. rewrite HD, (nearest_deco_fields _ _ HD), Hu, Hm.
  destruct (build_attrs_ok _ _ Hm st) as [s1 [attrs Hb]]. unfold bindM. rewrite Hb. eexists. eexists. reflexivity.
Qed.

(* ---- dataclasses.replace accepts replacements of init fields on a complete receiver *)
Lemma replace_changes_ok : forall fs r kw st,
  (forall f, In f fs -> f_init f = false -> mem (f_name f) (map fst kw) = false) ->
  (forall f, In f fs -> f_init f = true -> getattr (s_heap st) r (f_name f) <> None) ->
  forall changes, exists ch, replace_changes fs r kw changes st = (st, Ok ch).
Proof.
  induction fs as [|f fs IH]; intros r kw st H1 H2 changes; simpl.
  - now exists changes.
  - destruct (f_init f) eqn:Ei; simpl.
    + destruct (lookup changes (f_name f)).
      * apply IH; intros g Hg; [apply H1|apply H2]; now right.
      * unfold bindM at 1. unfold getattrM.
        destruct (getattr (s_heap st) r (f_name f)) as [v|] eqn:Eg; [|exfalso; eapply H2; [now left|assumption|exact Eg]].
        apply IH; intros g Hg; [apply H1|apply H2]; now right.
    + rewrite (H1 f (or_introl eq_refl) Ei). apply IH; intros g Hg; [apply H1|apply H2]; now right.
Qed.

Lemma request_no_init_false : forall fs kw, NoDup (map f_name fs) -> request_ok fs kw = true ->
  forall f, In f fs -> f_init f = false -> mem (f_name f) (map fst kw) = false.
Proof.
  intros fs kw ND Hr f Hf Hi. apply mem_false. intro Hin. apply in_map_iff in Hin as [[n v] [E Hin]]. simpl in E. subst n.
  unfold request_ok in Hr. rewrite forallb_forall in Hr. specialize (Hr _ Hin). simpl in Hr.
  apply existsb_exists in Hr as [g [Hg Hb]]. apply andb_true_iff in Hb as [Hb1 Hb2]. apply Nat.eqb_eq in Hb1.
  assert (g = f) by (eapply same_name_same_field; eassumption). subst g. congruence.
Qed.

Lemma receiver_ok_getattr : forall fs h r, receiver_ok fs h r = true ->
  forall f, In f fs -> f_init f = true -> getattr h r (f_name f) <> None.
Proof.
  intros fs h r H f Hf Hi. unfold receiver_ok in H. rewrite forallb_forall in H. specialize (H f Hf).
  rewrite Hi in H. simpl in H. destruct (getattr h r (f_name f)); [discriminate|discriminate H].
Qed.

(* keys accepted: every key of the arguments names an init field; none missing: every init field is a key *)
Lemma args_accepted : forall fs (args : list (name * value)),
  (forall n, lookup args n <> None -> exists f, In f fs /\ f_init f = true /\ f_name f = n) ->
  (forall f, In f fs -> f_init f = true -> lookup args (f_name f) <> None) ->
  kw_unexpected fs args = false /\ kw_missing fs args = false.
Proof.
  intros fs args H1 H2. split.
  - destruct (kw_unexpected fs args) eqn:E; [|reflexivity]. exfalso. unfold kw_unexpected in E.
    apply existsb_exists in E as [[n v] [Hin Hb]]. simpl in Hb. apply negb_true_iff in Hb.
    destruct (H1 n (in_lookup_some _ _ _ _ Hin)) as [f [Hf [Hi Hn]]].
    assert (X : existsb (fun f0 => Nat.eqb (f_name f0) n && f_init f0) fs = true).
    { apply existsb_exists. exists f. split; [assumption|]. now rewrite Hn, Nat.eqb_refl, Hi. }
    congruence.
  - destruct (kw_missing fs args) eqn:E; [|reflexivity]. exfalso. unfold kw_missing in E.
    apply existsb_exists in E as [f [Hf Hb]]. apply andb_true_iff in Hb as [Hb Hb3]. apply andb_true_iff in Hb as [Hb1 Hb2].
    apply negb_true_iff in Hb3. rewrite lookup_mem in Hb3. specialize (H2 f Hf Hb1).
    destruct (lookup args (f_name f)); [discriminate|congruence].
Qed.

Lemma dict_set_keys : forall d k v n, lookup (dict_set d k v) n <> None <-> (k = n \/ lookup d n <> None).
Proof.
  intros. rewrite lookup_dict_set. destruct (Nat.eqb k n) eqn:E.
  - apply Nat.eqb_eq in E. split; [now left|discriminate].
  - apply Nat.eqb_neq in E. split; [now right|]. intros [X|X]; [contradiction|assumption].
Qed.
Lemma dict_merge_keys : forall b a n, lookup (dict_merge a b) n <> None <-> (lookup a n <> None \/ lookup b n <> None).
Proof.
  unfold dict_merge. induction b as [|[k v] b IH]; intros a n; simpl.
  - split; [now left|]. intros [X|X]; [assumption|]. now elim X.
  - rewrite IH, dict_set_keys, lookup_cons. destruct (Nat.eqb k n) eqn:E.
    + apply Nat.eqb_eq in E. split; [intros _; right; discriminate|intros _; left; now left].
    + apply Nat.eqb_neq in E. tauto.
Qed.

Lemma spec_value_source : forall h orig kw f,
  spec_value h orig kw f =
  match spec_source h orig kw f with
  | SKw v | SOrig v | SDefault v => Some (h, v)
  | SFactory k => Some (h ++ [mkObj k [] []], VRef (List.length h))
  | SNone => None
  end.
Proof.
  intros. unfold spec_value, spec_source.
  destruct (if f_init f then lookup kw (f_name f) else None); [reflexivity|].
  destruct (if f_init f then match orig with Some r0 => getattr h r0 (f_name f) | None => None end else None); [reflexivity|].
  destruct (f_default f); reflexivity.
Qed.

(* an init=False field without default gets no attribute in __init__ *)
Lemma build_attrs_none : forall fs kw st st' attrs,
  build_attrs fs kw st = (st', Ok attrs) -> NoDup (map f_name fs) ->
  forall f, In f fs -> f_init f = false -> f_default f = DNone -> lookup attrs (f_name f) = None.
Proof.
  induction fs as [|g fs IH]; intros kw st st' attrs H ND f Hf Hi Hd; [destruct Hf|].
  simpl in H. unfold bindM in H at 1. destruct (field_value g kw st) as [s1 [ov|e]] eqn:E1; [|discriminate].
  unfold bindM in H at 1. destruct (build_attrs fs kw s1) as [s2 [rest|e]] eqn:E2; [|discriminate].
  unfold ret in H. inversion H. subst st' attrs. clear H.
  simpl in ND. inversion ND as [|? ? Hnin ND']. subst.
  destruct (build_attrs_spec _ _ _ _ _ E2 ND') as [IHn _].
  destruct Hf as [Hf|Hf].
  - subst g. unfold field_value, from_default in E1. rewrite Hi, Hd in E1. inversion E1. subst ov.
    destruct (lookup rest (f_name f)) eqn:El; [|reflexivity]. exfalso. apply Hnin. apply IHn. congruence.
  - assert (Hne : Nat.eqb (f_name g) (f_name f) = false).
    { apply Nat.eqb_neq. intro Heq. apply Hnin. rewrite Heq. now apply in_map. }
    destruct ov; [rewrite lookup_cons, Hne|]; eapply IH; eassumption.
Qed.

(* the attributes of the candidate, from the arguments the generated __init__ received *)
Lemma candidate_fields : forall C args st0 st1 r,
  candidate C args st0 = (st1, Ok r) ->
  forall f, In f (dc_fields C) ->
    (f_init f = true -> forall v, lookup args (f_name f) = Some v -> getattr (s_heap st1) r (f_name f) = Some v) /\
    (f_init f && is_some (lookup args (f_name f)) = false ->
       match f_default f with
       | DVal v => getattr (s_heap st1) r (f_name f) = Some v
       | DFactory k => exists q, getattr (s_heap st1) r (f_name f) = Some (VRef q) /\ List.length (s_heap st0) <= q /\
                                 nth_error (s_heap st1) q = Some (mkObj k [] [])
       | DNone => getattr (s_heap st1) r (f_name f) = None
       end).
Proof.
  intros C args st0 st1 r H f Hf.
  destruct (candidate_spec _ _ _ _ _ H) as [D [attrs [ext [HD [HB [Hh [Hr [Hj [Hu Hm]]]]]]]]].
  destruct (build_attrs_spec _ _ _ _ _ HB (dc_fields_nodup C)) as [_ BF]. destruct (BF f Hf) as [B1 [_ [B3 B4]]].
  assert (Hget : getattr (s_heap st1) r (f_name f) = lookup attrs (f_name f)) by (rewrite Hh, Hr; apply getattr_new).
  rewrite Hget. split; [exact B1|]. intro Hn. destruct (f_default f) as [|v|k] eqn:Ed.
  - destruct (f_init f) eqn:Ei.
    + exfalso. simpl in Hn. unfold kw_missing in Hm.
      assert (X : existsb (fun f0 => f_init f0 && is_dnone (f_default f0) && negb (mem (f_name f0) (map fst args))) (dc_fields C) = true).
      { apply existsb_exists. exists f. split; [assumption|]. rewrite Ei, Ed, lookup_mem. simpl.
        destruct (lookup args (f_name f)); [discriminate|reflexivity]. }
      congruence.
    + eapply build_attrs_none; try eassumption. apply dc_fields_nodup.
  - now apply B3.
  - destruct (B4 Hn k eq_refl) as [q [Q1 [Q2 Q3]]]. exists q. split; [assumption|]. split; [assumption|].
    rewrite Hh. simpl in Q3. rewrite nth_error_app1; [assumption|]. apply nth_error_Some. congruence.
Qed.

Section Succeeds.
  Variable defs : list (dparam * bool).
  Let P := ref_prog defs.
  Variable check : bool -> heap -> ann -> value -> outcome unit.

  Lemma current_values_ok : forall h r sel,
    (forall f, In f sel -> getattr h r (f_name f) <> None) ->
    forall st, (exists e0, s_heap st = h ++ e0) ->
    exists st1 cur, current_values P sel r st = (st1, Ok cur) /\ map fst cur = map f_name sel.
  Proof.
    intros h r. induction sel as [|f sel IH]; intros Hg st [e0 He0].
    - exists st, []. split; reflexivity.
    - destruct (getattr h r (f_name f)) as [v|] eqn:Eg; [|exfalso; eapply Hg; [now left|exact Eg]].
      assert (Eg' : getattr (s_heap st) r (f_name f) = Some v).
      { rewrite He0. rewrite getattr_app; [assumption|]. eapply getattr_lt. eassumption. }
      simpl. unfold bindM at 1. unfold getattrM. rewrite Eg'.
      change (d_deepcopy (p_deep P)) with true. cbv iota. unfold bindM at 1. unfold deepcopyM, deepcopy.
      set (s1 := mkSt (s_heap st ++ map (shift_o (s_heap st) (List.length (s_heap st))) (s_heap st)) (s_journal st)).
      destruct (IH (fun g Hg' => Hg g (or_intror Hg')) s1) as [s2 [tl [Ht Hk]]].
      { exists (e0 ++ map (shift_o (s_heap st) (List.length (s_heap st))) (s_heap st)). unfold s1. cbn [s_heap].
        rewrite He0 at 1. now rewrite app_assoc. }
      unfold bindM at 1. rewrite Ht. eexists. eexists. split; [reflexivity|]. simpl. now rewrite Hk.
  Qed.

  (* the candidate exists for every well-formed request *)
  Lemma path_candidate_ok : forall C D p st, nearest_deco C = Some D ->
    path_request_ok (dc_fields C) p (s_heap st) = true ->
    exists st1 r, path_candidate P C p st = (st1, Ok r).
  Proof.
    intros C D p st HD Hreq. unfold path_candidate. destruct p as [kw|r0 kw|r0 kw]; cbn [path_args path_request_ok] in *;
      apply andb_true_iff in Hreq as [Hr1 Hr2].
    - unfold bindM, ret. eapply candidate_ok; [eassumption| |].
      + now rewrite kw_unexpected_request, Hr1.
      + now rewrite kw_missing_required, Hr2.
    - pose proof (request_no_init_false _ _ (dc_fields_nodup C) Hr1) as H1.
      pose proof (receiver_ok_getattr _ _ _ Hr2) as H2.
      destruct (replace_changes_ok _ r0 kw st H1 H2 kw) as [ch Hch].
      unfold bindM at 1. rewrite Hch.
      destruct (replace_changes_spec _ _ _ _ _ _ _ Hch) as [_ [RA [RB [RC _]]]].
      assert (Hreq : forall n, lookup kw n <> None -> exists f, In f (dc_fields C) /\ f_init f = true /\ f_name f = n).
      { intros n Hn. destruct (lookup kw n) as [v|] eqn:E; [|congruence]. apply lookup_some_in in E.
        unfold request_ok in Hr1. rewrite forallb_forall in Hr1. specialize (Hr1 _ E). simpl in Hr1.
        apply existsb_exists in Hr1 as [f [Hf Hb]]. apply andb_true_iff in Hb as [Hb1 Hb2]. apply Nat.eqb_eq in Hb1.
        now exists f. }
      destruct (args_accepted (dc_fields C) ch) as [Hu Hm].
      + intros n Hn. destruct (RC n Hn) as [X|X]; [now apply Hreq|assumption].
      + intros f Hf Hi. destruct (lookup kw (f_name f)) eqn:E.
        * rewrite RA; congruence.
        * now destruct (RB f Hf Hi E).
      + eapply candidate_ok; eassumption.
    - unfold deep_args. rewrite HD, (nearest_deco_fields _ _ HD).
      change (d_filter_init (p_deep P)) with true. change (d_merge (p_deep P)) with MergeKwLast. cbv iota.
      pose proof (receiver_ok_getattr _ _ _ Hr2) as H2.
      destruct (current_values_ok (s_heap st) r0 (filter f_init (dc_fields C))) with (st := st) as [s1 [cur [Hc Hk]]].
      { intros f Hf. apply filter_In in Hf as [Hf Hi]. now apply H2. }
      { exists []. now rewrite app_nil_r. }
      unfold bindM at 1. unfold bindM at 1. rewrite Hc. unfold ret.
      assert (Hcur : forall n, lookup cur n <> None <-> exists f, In f (dc_fields C) /\ f_init f = true /\ f_name f = n).
      { intro n. split.
        - intro Hn. destruct (lookup cur n) eqn:E; [|congruence]. apply lookup_some_in in E.
          assert (Hin : In n (map fst cur)) by (apply in_map_iff; now exists (n, v)).
          rewrite Hk in Hin. apply in_map_iff in Hin as [f [Hn' Hf]]. apply filter_In in Hf as [Hf Hi]. now exists f.
        - intros [f [Hf [Hi Hn]]] E. apply lookup_none_notin in E. apply E. rewrite Hk. apply in_map_iff.
          exists f. split; [assumption|]. apply filter_In. now split. }
      destruct (args_accepted (dc_fields C) (dict_merge cur kw)) as [Hu Hm].
      + intros n Hn. apply dict_merge_keys in Hn as [X|X]; [now apply Hcur|].
        destruct (lookup kw n) as [v|] eqn:E; [|congruence]. apply lookup_some_in in E.
        unfold request_ok in Hr1. rewrite forallb_forall in Hr1. specialize (Hr1 _ E). simpl in Hr1.
        apply existsb_exists in Hr1 as [f [Hf Hb]]. apply andb_true_iff in Hb as [Hb1 Hb2]. apply Nat.eqb_eq in Hb1.
        now exists f.
      + intros f Hf Hi. apply dict_merge_keys. left. apply Hcur. now exists f.
      + eapply candidate_ok; eassumption.
  Qed.

  (* the candidate holds, field by field, what the property text says the new object gets (Spec.spec_source / spec_value):
     the keyword value; else, for the copy methods, the original's value (the very object for copy_with, its deep copy for
     deep_copy_with); else the default (a fresh empty object for a default_factory); else nothing *)
  Lemma path_candidate_fields : forall C p st st1 r,
    path_candidate P C p st = (st1, Ok r) ->
    (forall r0 kw, p = ByDeep r0 kw -> r0 < List.length (s_heap st) /\ NoDup (map fst kw)) ->
    forall f, In f (dc_fields C) ->
    match spec_source (s_heap st) (path_orig p) (path_kw p) f with
    | SKw v | SDefault v => getattr (s_heap st1) r (f_name f) = Some v
    | SOrig v =>
      match p with
      | ByDeep _ _ => exists v', getattr (s_heap st1) r (f_name f) = Some v' /\ is_deepcopy (s_heap st) (s_heap st1) v v'
      | _ => getattr (s_heap st1) r (f_name f) = Some v
      end
    | SFactory k => exists q, getattr (s_heap st1) r (f_name f) = Some (VRef q) /\ List.length (s_heap st) <= q /\
                              nth_error (s_heap st1) q = Some (mkObj k [] [])
    | SNone => getattr (s_heap st1) r (f_name f) = None
    end.
  Proof.
    intros C p st st1 r Hc Hdeep f Hf. unfold path_candidate in Hc. unfold bindM in Hc.
    destruct (path_args P C p st) as [s0 [args|e]] eqn:Ea; [|discriminate].
    destruct (candidate_fields C args s0 st1 r Hc f Hf) as [G1 G2].
    assert (HD : exists D, nearest_deco C = Some D).
    { destruct (candidate_spec _ _ _ _ _ Hc) as [D [_ [_ [HD _]]]]. now exists D. }
    destruct HD as [D HD].
    (* the default branch, shared by the three paths *)
    assert (Gdef : f_init f && is_some (lookup args (f_name f)) = false -> List.length (s_heap st) <= List.length (s_heap s0) ->
                   match f_default f with
                   | DVal v => getattr (s_heap st1) r (f_name f) = Some v
                   | DFactory k => exists q, getattr (s_heap st1) r (f_name f) = Some (VRef q) /\ List.length (s_heap st) <= q /\
                                             nth_error (s_heap st1) q = Some (mkObj k [] [])
                   | DNone => getattr (s_heap st1) r (f_name f) = None
                   end).
    { intros Hn Hle. specialize (G2 Hn). destruct (f_default f); try assumption.
      destruct G2 as [q [Q1 [Q2 Q3]]]. exists q. split; [assumption|]. split; [lia|assumption]. }
    unfold spec_source. destruct p as [kw|r0 kw|r0 kw]; cbn [path_orig path_kw path_args] in *.
    - (* constructor *)
      unfold ret in Ea. inversion Ea. subst s0 args. destruct (f_init f) eqn:Ei.
      + destruct (lookup kw (f_name f)) as [v|] eqn:El; [now apply G1|].
        assert (X := Gdef eq_refl (le_n _)). destruct (f_default f); exact X.
      + assert (X := Gdef eq_refl (le_n _)). destruct (f_default f); exact X.
    - (* copy_with: dataclasses.replace *)
      destruct (replace_changes_spec _ _ _ _ _ _ _ Ea) as [Hs [RA [RB _]]]. subst s0.
      destruct (f_init f) eqn:Ei.
      + destruct (lookup kw (f_name f)) as [v|] eqn:El.
        * apply G1; [reflexivity|]. rewrite RA; congruence.
        * destruct (RB f Hf Ei El) as [R1 R2]. destruct (getattr (s_heap st) r0 (f_name f)) as [w|] eqn:Eg; [|congruence].
          now apply G1.
      + assert (X := Gdef eq_refl (le_n _)). destruct (f_default f); exact X.
    - (* deep_copy_with *)
      destruct (Hdeep r0 kw eq_refl) as [Hr Hnd].
      unfold deep_args in Ea. rewrite HD, (nearest_deco_fields _ _ HD) in Ea.
      change (d_filter_init (p_deep P)) with true in Ea. change (d_merge (p_deep P)) with MergeKwLast in Ea. cbv iota in Ea.
      unfold bindM in Ea. destruct (current_values P (filter f_init (dc_fields C)) r0 st) as [s1 [cur|e]] eqn:Ec; [|discriminate].
      unfold ret in Ea. inversion Ea. subst s0 args. clear Ea.
      assert (Hst : exists e0, s_heap st = s_heap st ++ e0) by (exists []; now rewrite app_nil_r).
      destruct (current_values_spec defs _ _ _ _ _ _ Hr Hst Ec) as [CV1 CV2].
      destruct (grows_current_values P _ _ _ _ _ Ec) as [e1 He1].
      assert (Hle : List.length (s_heap st) <= List.length (s_heap s1)) by (rewrite He1, app_length; lia).
      assert (Largs : forall n, lookup (dict_merge cur kw) n = match lookup kw n with Some v => Some v | None => lookup cur n end)
        by (intro n; now apply lookup_dict_merge).
      destruct (f_init f) eqn:Ei.
      + destruct (lookup kw (f_name f)) as [v|] eqn:El.
        * apply G1; [reflexivity|]. now rewrite Largs, El.
        * assert (Hin : In (f_name f) (map fst cur)).
          { rewrite CV1. apply in_map. apply filter_In. split; assumption. }
          destruct (lookup cur (f_name f)) as [v'|] eqn:Ecur; [|exfalso; apply lookup_none_notin in Ecur; contradiction].
          destruct (CV2 _ _ (lookup_some_in _ _ _ _ Ecur)) as [v [V1 V2]]. rewrite V1.
          exists v'. split; [apply G1; [reflexivity|]; now rewrite Largs, El|].
          destruct (grows_candidate C (dict_merge cur kw) _ _ _ Hc) as [e3 He3]. rewrite He3. now apply is_deepcopy_later.
      + assert (X := Gdef eq_refl Hle). destruct (f_default f); exact X.
  Qed.

  (* the path returns an instance iff __post_init__ (user hooks, checks) accepts the candidate; classes whose generated
     __init__ does not call __post_init__ (no type-safe layer, no user hook) always do *)
  Lemma path_succeeds : forall C D p st, nearest_deco C = Some D ->
    path_request_ok (dc_fields C) p (s_heap st) = true ->
    exists st1 r, path_candidate P C p st = (st1, Ok r) /\
      (init_calls_pi P D = false -> run_path P check C p st = (st1, Ok r)) /\
      (init_calls_pi P D = true ->
         ((exists st', run_path P check C p st = (st', Ok r)) <->
          snd (post_init_run defs check C p r (s_heap st1)) = Ok tt) /\
         (forall st' x, run_path P check C p st = (st', Ok x) -> x = r)).
  Proof.
    intros C D p st HD Hreq. destruct (path_candidate_ok C D p st HD Hreq) as [st1 [r Hc]].
    exists st1, r. split; [assumption|]. split.
    - intro Hi. eapply path_outcome_quiet; eassumption.
    - intro Hi. unfold P in *. rewrite (path_outcome defs check C D p st st1 r HD Hi Hc).
      destruct (post_init_run defs check C p r (s_heap st1)) as [[ev h2] [[]|e]]; cbn [snd]; split.
      + split; [reflexivity|]. intros _. eexists. reflexivity.
      + intros st' x H. now inversion H.
      + split; [intros [st' H]; discriminate|discriminate].
      + intros st' x H. discriminate.
  Qed.
End Succeeds.
