(* C07: the checker on an annotation WITH TypeVars = the structural check of the erased annotation
   (C01/C02's business) + the TypeVar checks at the matched positions, in order.
   For every annotation of the vocabulary `tv_vocab` (any nesting depth), every value, every table:
     accepted_struct :  is_inst a v tv = (Ok true, _)      ->  the erased annotation accepts v
     refine_trace    :  the erased annotation accepts v    ->  is_inst a v tv = run_tc (matched a v) tv
   by nested induction on the annotation.                                                       *)
From Coq Require Import List Arith Bool ZArith Lia.
From PV Require Import Base.Exn Base.Values Base.Ann Model.CheckerCfg Model.Checker Model.GenericInstance Spec.Conforms Spec.TypeVarSpec
  Proofs.CheckerGood Proofs.CheckerRefine Proofs.TypeVarFrame Proofs.TypeVarTC.
Import ListNotations.

(* ---- erase / inert ----------------------------------------------------------------------------- *)
Lemma erase_inert : forall a, inert (erase a) = true.
Proof.
  induction a using ann_ind'; try reflexivity; cbn [erase inert].
  - rewrite forallb_forall. intros x Hx. apply in_map_iff in Hx as [y [<- Hy]]. rewrite Forall_forall in H. now apply H.
  - assumption.
  - rewrite forallb_forall. intros x Hx. apply in_map_iff in Hx as [y [<- Hy]]. rewrite Forall_forall in H. now apply H.
  - assumption.
Qed.

Lemma erase_id : forall a, inert a = true -> erase a = a.
Proof.
  induction a using ann_ind'; intro Hi; try reflexivity; cbn [erase inert] in *.
  - f_equal. rewrite forallb_forall in Hi. rewrite Forall_forall in H.
    induction args as [|x args IH]; [reflexivity|]. simpl. f_equal.
    + apply H; [now left|]. apply Hi. now left.
    + apply IH; intros; [apply H|apply Hi]; try (now right); assumption.
  - f_equal. now apply IHa.
  - f_equal. rewrite forallb_forall in Hi. rewrite Forall_forall in H.
    induction args as [|x args IH]; [reflexivity|]. simpl. f_equal.
    + apply H; [now left|]. apply Hi. now left.
    + apply IH; intros; [apply H|apply Hi]; try (now right); assumption.
  - f_equal. now apply IHa.
  - discriminate.
Qed.

Lemma matched_inert : forall a, inert a = true -> forall b v, matched b a v = [].
Proof.
  induction a using ann_ind'; intros Hi b v; try reflexivity; cbn [inert] in Hi.
  - (* Union: no TypeVar member *)
    cbn [matched]. destruct (existsb _ args); [reflexivity|].
    assert (Hf : filter is_tv args = []).
    { rewrite forallb_forall in Hi. clear -Hi. induction args as [|x args IH]; [reflexivity|]. simpl.
      assert (Hx : is_tv x = false) by (specialize (Hi x (or_introl eq_refl)); destruct x; try reflexivity; discriminate).
      rewrite Hx. apply IH. intros y Hy. apply Hi. now right. }
    assert (Hg : filter generic_tv_member args = []).
    { rewrite forallb_forall in Hi. clear -Hi. induction args as [|x args IH]; [reflexivity|]. simpl.
      assert (Hx : generic_tv_member x = false) by (unfold generic_tv_member; now rewrite (Hi x (or_introl eq_refl))).
      rewrite Hx. apply IH. intros y Hy. apply Hi. now right. }
    now rewrite Hf, Hg.
  - (* Generic *)
    rewrite forallb_forall in Hi. rewrite Forall_forall in H.
    assert (Hall : forall a0, In a0 args -> forall w, matched false a0 w = []) by (intros a0 Ha w; apply H; auto).
    assert (Hfm : forall a0, In a0 args -> forall l, flat_map (matched false a0) l = []).
    { intros a0 Ha l. induction l as [|x l IHl]; [reflexivity|]. simpl. now rewrite (Hall a0 Ha), IHl. }
    cbn [matched]. destruct (origin_kind o).
    + destruct args as [|a0 [|? ?]]; try reflexivity.
      destruct (abc_instance o (class_of v)); [|reflexivity]. destruct (iter_values v); [|reflexivity].
      apply Hfm. now left.
    + destruct args as [|ka [|va [|? ?]]]; try reflexivity.
      destruct (abc_instance o (class_of v)); [|reflexivity]. destruct (items_of v) as [kvs|]; [|reflexivity].
      induction kvs as [|kv kvs IHk]; [reflexivity|]. simpl. rewrite IHk.
      rewrite (Hall ka), (Hall va); simpl; auto.
    + destruct args as [|ka [|va [|? ?]]]; try reflexivity.
      destruct (pairs_of v) as [kvs|]; [|reflexivity].
      induction kvs as [|kv kvs IHk]; [reflexivity|]. simpl. rewrite IHk.
      rewrite (Hall ka), (Hall va); simpl; auto.
    + destruct v; try reflexivity. destruct (Nat.eqb (List.length l) (List.length args)); [|reflexivity].
      clear -Hall. revert l. induction args as [|a0 args IHa]; intro l; [reflexivity|].
      destruct l as [|v0 l]; [reflexivity|]. rewrite (Hall a0 (or_introl eq_refl)). simpl.
      apply IHa. intros; apply Hall; now right.
    + destruct args; reflexivity.
    + destruct args; reflexivity.
  - (* TupleVar *)
    cbn [matched]. destruct v; try reflexivity.
    induction l as [|x l IHl]; [reflexivity|]. simpl. now rewrite (IHa Hi false x), IHl.
  - discriminate.
Qed.

(* the zip of the Tuple[...] branch as a top-level function *)
Fixpoint zip_trace (l : list ann) (vs : list value) : list mpos :=
  match l, vs with
  | a0 :: l', v0 :: vs' => matched false a0 v0 ++ zip_trace l' vs'
  | _, _ => []
  end.

Lemma matched_tuple b sp o args vs : origin_kind o = KTuple ->
  matched b (AGeneric sp o args) (VTuple vs) =
  if Nat.eqb (List.length vs) (List.length args) then zip_trace args vs else [].
Proof.
  intro Hk. cbn [matched]. rewrite Hk. destruct (Nat.eqb _ _); reflexivity.
Qed.

Lemma res_eta (r : res) : match r with (Ok true, tv') => (Ok true, tv') | r0 => r0 end = r.
Proof. destruct r as [[[|]|] ?]; reflexivity. Qed.

(* ---- iterators ------------------------------------------------------------------------------- *)
Section Iter.
  Variable hook : ann -> value -> tvenv -> res.
  Context {A : Type}.
  Variable f : A -> tvenv -> res.
  Variable m : A -> list mpos.

  Lemma q_all_run l : (forall x, In x l -> forall tv, f x tv = run_tc hook (m x) tv) ->
    forall tv, q_all f l tv = run_tc hook (flat_map m l) tv.
  Proof.
    induction l as [|x l IH]; intros H tv; simpl; [reflexivity|].
    rewrite run_tc_app, (H x (or_introl eq_refl)).
    destruct (run_tc hook (m x) tv) as [[[|]|e] tv']; try reflexivity.
    apply IH. intros y Hy. apply H. now right.
  Qed.

  Lemma q_all_true_elems l : forall tv tv', q_all f l tv = (Ok true, tv') ->
    forall x, In x l -> exists t1 t2, f x t1 = (Ok true, t2).
  Proof.
    induction l as [|x l IH]; intros tv tv' H y Hy; [destruct Hy|].
    simpl in H. destruct (f x tv) as [[[|]|e] tv1] eqn:E; try discriminate.
    destruct Hy as [<-|Hy]; [eauto|]. eapply IH; eassumption.
  Qed.

  Lemma q_all_framed_true l : (forall x, In x l -> forall tv, f x tv = (Ok true, tv)) ->
    forall tv, q_all f l tv = (Ok true, tv).
  Proof.
    induction l as [|x l IH]; intros H tv; simpl; [reflexivity|].
    rewrite (H x (or_introl eq_refl)). apply IH. intros y Hy. apply H. now right.
  Qed.

  Lemma q_all_framed_elems (r : A -> outcome bool) l : (forall x tv, f x tv = (r x, tv)) ->
    forall tv, fst (q_all f l tv) = Ok true -> forall x, In x l -> r x = Ok true.
  Proof.
    intro Hf. induction l as [|x l IH]; intros tv H y Hy; [destruct Hy|].
    simpl in H. rewrite Hf in H. destruct (r x) as [[|]|e] eqn:E; try discriminate.
    destruct Hy as [<-|Hy]; [assumption|]. eapply IH; eassumption.
  Qed.
End Iter.

Section Refine.
  Variable cfg : checker_cfg.
  Hypothesis good : good_facts cfg.
  Hypothesis Hub : un_bound_uses_result cfg = true.
  Variable ctx : nat -> option cls.
  Variable hook : ann -> value -> tvenv -> res.

  Notation II := (is_inst cfg ctx hook).
  Notation RUN := (run_tc hook).

  (* verdict of the erased annotation (independent of table and hook) *)
  Definition EI (a : ann) (v : value) : outcome bool := fst (II (erase a) v []).

  Lemma EI_frame a v tv : II (erase a) v tv = (EI a v, tv).
  Proof.
    destruct (inert_uniform cfg ctx (erase a) (erase_inert a) v) as [r Hr].
    unfold EI. now rewrite !Hr.
  Qed.

  (* ---- configuration facts (has_required etc. come from Proofs/CheckerRefine.v) ------------------- *)
  Lemma in_bare_false c : bare_builtin_cls c = false -> in_cls c (bare_builtins cfg) = false.
  Proof. exact (CheckerRefine.in_bare_false cfg good c). Qed.

  Lemma kind_vocab o : origin_kind o <> KNone -> In o vocab_names.
  Proof. exact (CheckerRefine.kelems_vocab o). Qed.

  Lemma hr_untabled a : ann_name a = None -> has_required cfg a = true.
  Proof. intro H. apply (CheckerRefine.has_required_of_tables cfg). unfold has_required_tables. now rewrite H. Qed.

  Lemma has_required_generic sp o args :
    origin_kind o <> KNone -> arity_ok o (List.length args) = true ->
    has_required cfg (AGeneric sp o args) = true.
  Proof.
    intros Hk Ha. destruct sp; [|now apply hr_untabled ..].
    apply (CheckerRefine.has_required_generic cfg good); [now apply kind_vocab|assumption].
  Qed.

  Lemma has_required_tuplevar sp e : has_required cfg (ATupleVar sp e) = true.
  Proof.
    destruct sp; [|now apply hr_untabled ..].
    first [apply (CheckerRefine.has_required_tuplevar cfg good hook) | apply (CheckerRefine.has_required_tuplevar cfg good)].
  Qed.

  Lemma has_required_any : has_required cfg AAny = true.
  Proof. exact (CheckerRefine.has_required_any cfg good). Qed.

  Lemma has_required_union sp args : has_required cfg (AUnion sp args) = true.
  Proof. exact (CheckerRefine.has_required_union cfg good sp args). Qed.

  Lemma elems_iterable o v : origin_kind o = KElems -> abc_instance o (class_of v) = true -> exists l, iter_values v = Some l.
  Proof. destruct o; simpl; try discriminate; intros _; destruct v; simpl; try discriminate; intros _; eauto. Qed.
  Lemma mapping_items o v : origin_kind o = KMapping -> abc_instance o (class_of v) = true -> exists kvs, items_of v = Some kvs.
  Proof. destruct o; simpl; try discriminate; intros _; destruct v; simpl; try discriminate; intros _; eauto. Qed.
  Lemma tuple_inst v : abc_instance TTuple (class_of v) = true -> exists vs, v = VTuple vs.
  Proof. destruct v; simpl; try discriminate; eauto. Qed.
  Lemma ktuple_is o : origin_kind o = KTuple -> o = TTuple.
  Proof. destruct o; simpl; try discriminate; reflexivity. Qed.
  Lemma kitems_is o : origin_kind o = KItems -> o = TItemsView.
  Proof. destruct o; simpl; try discriminate; reflexivity. Qed.

  Lemma checker_of_kind o : In o vocab_names ->
    match origin_kind o with
    | KElems => origin_checker cfg o = Some CkIterable
    | KMapping => origin_checker cfg o = Some CkMapping
    | KItems => origin_checker cfg o = Some CkItemsView
    | KTuple => origin_checker cfg o = Some CkTuple
    | KType => origin_checker cfg o = Some CkType
    | KNone => True
    end.
  Proof.
    intro Hin. pose proof (gf_kind cfg good o Hin) as H. unfold kind_ok in H.
    destruct (origin_kind o); destruct (origin_checker cfg o) as [[| | | | |]|]; try discriminate; auto.
  Qed.

  (* ---- what generic_f computes for the four kinds (any recursive call f) --------------------------- *)
  Section Shapes.
    Variable f : ann -> value -> tvenv -> res.

    Lemma generic_elems o a0 v tv : origin_kind o = KElems ->
      generic_f cfg f o [a0] v tv =
      if abc_instance o (class_of v)
      then match iter_values v with Some l => q_all (f a0) l tv | None => (Raise TypeErrorC, tv) end
      else (Ok false, tv).
    Proof.
      intro Hk. unfold generic_f.
      rewrite (has_required_generic SpTyping o [a0]) by (rewrite ?Hk; try discriminate; unfold arity_ok; now rewrite Hk).
      simpl negb at 1. cbv iota.
      destruct (abc_instance o (class_of v)) eqn:Ea; [|reflexivity]. simpl negb. cbv iota.
      pose proof (checker_of_kind o (kind_vocab o ltac:(rewrite Hk; discriminate))) as Hc. rewrite Hk in Hc. rewrite Hc.
      destruct (elems_iterable o v Hk Ea) as [l ->].
      now rewrite (gf_it_index cfg good), (gf_it_quant cfg good).
    Qed.

    Lemma generic_mapping o ka va v tv : origin_kind o = KMapping ->
      generic_f cfg f o [ka; va] v tv =
      if abc_instance o (class_of v)
      then match items_of v with Some kvs => q_all (pair_check cfg f ka va) kvs tv | None => (Raise AttributeErrorC, tv) end
      else (Ok false, tv).
    Proof.
      intro Hk. unfold generic_f.
      rewrite (has_required_generic SpTyping o [ka; va]) by (rewrite ?Hk; try discriminate; unfold arity_ok; now rewrite Hk).
      simpl negb at 1. cbv iota.
      destruct (abc_instance o (class_of v)) eqn:Ea; [|reflexivity]. simpl negb. cbv iota.
      pose proof (checker_of_kind o (kind_vocab o ltac:(rewrite Hk; discriminate))) as Hc. rewrite Hk in Hc. rewrite Hc.
      rewrite (gf_mp cfg good). destruct (mapping_items o v Hk Ea) as [kvs ->].
      unfold items_f. now rewrite (gf_iv_quant cfg good).
    Qed.

    Lemma generic_items ka va v tv :
      generic_f cfg f TItemsView [ka; va] v tv =
      match pairs_of v with Some kvs => q_all (pair_check cfg f ka va) kvs tv | None => (Ok false, tv) end.
    Proof.
      unfold generic_f.
      rewrite (has_required_generic SpTyping TItemsView [ka; va]) by (simpl; try discriminate; reflexivity).
      simpl negb at 1. cbv iota.
      pose proof (checker_of_kind TItemsView ltac:(simpl; tauto)) as Hc. simpl in Hc.
      destruct v; simpl; try reflexivity. rewrite Hc. unfold items_f. now rewrite (gf_iv_quant cfg good).
    Qed.

    Lemma generic_tuple args v tv : 1 <= List.length args ->
      generic_f cfg f TTuple args v tv =
      match v with
      | VTuple vs => if Nat.eqb (List.length vs) (List.length args) then zip_f cfg f args vs tv else (Ok false, tv)
      | _ => (Ok false, tv)
      end.
    Proof.
      intro Hl. unfold generic_f.
      rewrite (has_required_generic SpTyping TTuple args) by (simpl; try discriminate; now apply Nat.leb_le).
      simpl negb at 1. cbv iota.
      pose proof (checker_of_kind TTuple ltac:(simpl; tauto)) as Hc. simpl in Hc.
      destruct v; simpl; try reflexivity. rewrite Hc, (gf_len cfg good). simpl.
      now destruct (Nat.eqb (List.length l) (List.length args)).
    Qed.

    Lemma tuple_var_shape e v tv :
      tuple_var_f cfg f e v tv =
      match v with VTuple vs => q_all (f e) vs tv | _ => (Ok false, tv) end.
    Proof.
      unfold tuple_var_f. rewrite has_required_tuplevar. simpl negb at 1. cbv iota.
      pose proof (checker_of_kind TTuple ltac:(simpl; tauto)) as Hc. simpl in Hc.
      destruct v; simpl; try reflexivity. now rewrite Hc, (gf_ell_index cfg good), (gf_ell_quant cfg good).
    Qed.

    Lemma pair_shape ka va kv tv :
      pair_check cfg f ka va kv tv = match f ka (fst kv) tv with (Ok true, tv') => f va (snd kv) tv' | r => r end.
    Proof. unfold pair_check. now rewrite (gf_iv_conj cfg good). Qed.

    Lemma zip_shape : forall l vs tv,
      zip_f cfg f l vs tv =
      match l, vs with
      | a0 :: l', v0 :: vs' => match f a0 v0 tv with (Ok true, tv') => zip_f cfg f l' vs' tv' | r => r end
      | _, _ => (Ok true, tv)
      end.
    Proof.
      intros l vs tv. destruct l as [|a0 l]; simpl; rewrite ?(gf_zip cfg good); [reflexivity|].
      destruct vs as [|v0 vs]; [reflexivity|].
      destruct (f a0 v0 tv) as [[[|]|e] tv']; reflexivity.
    Qed.
  End Shapes.

  (* conversion of a builtin alias does not look at TypeVars *)
  Lemma go_type_erase (ck : ann -> outcome unit) :
    ck AAny = Ok tt -> (forall t, ck (ATypeVar t) = Ok tt) ->
    forall l, Forall (fun a => ck (erase a) = ck a) l ->
    (fix go_type (l : list ann) : outcome unit :=
       match l with
       | [] => Ok tt
       | ACls _ :: l' => go_type l'
       | x :: l' => match ck x with Ok _ => go_type l' | Raise e => Raise e end
       end) (map erase l)
    = (fix go_type (l : list ann) : outcome unit :=
       match l with
       | [] => Ok tt
       | ACls _ :: l' => go_type l'
       | x :: l' => match ck x with Ok _ => go_type l' | Raise e => Raise e end
       end) l.
  Proof.
    intros Hany Htv. induction l as [|x l IHl]; intro HF; [reflexivity|]. inversion HF as [|? ? Hx HF']; subst.
    cbn [map]. destruct x; cbn [erase] in *; simpl;
      try (now apply IHl);
      try (rewrite Hany, Htv; now apply IHl);
      try (rewrite ?Hx; match goal with |- match ck ?y with _ => _ end = _ => destruct (ck y) end; [now apply IHl|reflexivity]).
  Qed.

  Lemma go_erase (ck : ann -> outcome unit) :
    forall l, Forall (fun a => ck (erase a) = ck a) l ->
    (fix go (l : list ann) : outcome unit :=
       match l with [] => Ok tt | x :: l' => match ck x with Ok _ => go l' | Raise e => Raise e end end) (map erase l)
    = (fix go (l : list ann) : outcome unit :=
       match l with [] => Ok tt | x :: l' => match ck x with Ok _ => go l' | Raise e => Raise e end end) l.
  Proof.
    induction l as [|x l IHl]; intro HF; [reflexivity|]. inversion HF as [|? ? Hx HF']; subst. simpl. rewrite Hx.
    destruct (ck x); [now apply IHl|reflexivity].
  Qed.

  (* conversion of a builtin alias does not look at TypeVars *)
  Lemma conv_ok_erase : forall a, conv_ok cfg (erase a) = conv_ok cfg a.
  Proof.
    induction a using ann_ind'; try reflexivity.
    - (* Generic *)
      destruct sp; [reflexivity| |]; cbn [erase conv_ok].
      + rewrite map_length. destruct (tname_eqb o TType && conv_type_keeps_classes cfg).
        * now rewrite (go_type_erase (conv_ok cfg) eq_refl (fun _ => eq_refl) args H).
        * now rewrite (go_erase (conv_ok cfg) args H).
      + now rewrite (go_erase (conv_ok cfg) args H).
    - (* TupleVar *)
      destruct sp; [reflexivity| |]; cbn [erase conv_ok]; now rewrite IHa.
  Qed.

  (* ---- the two refinement statements, for one annotation ------------------------------------------ *)
  Definition P_acc (a : ann) : Prop := forall v tv tv', II a v tv = (Ok true, tv') -> EI a v = Ok true.
  Definition P_run (a : ann) : Prop := forall v tv, EI a v = Ok true -> II a v tv = RUN (matched false a v) tv.

  Lemma leaf_acc a : inert a = true -> P_acc a.
  Proof.
    intros Hi v tv tv' H. unfold EI. rewrite (erase_id a Hi).
    destruct (inert_uniform cfg ctx a Hi v) as [r Hr]. rewrite Hr in *. now inversion H.
  Qed.
  Lemma leaf_run a : inert a = true -> P_run a.
  Proof.
    intros Hi v tv H. rewrite (matched_inert a Hi). simpl. unfold EI in H. rewrite (erase_id a Hi) in H.
    destruct (inert_uniform cfg ctx a Hi v) as [r Hr]. rewrite Hr in *. simpl in H. now subst r.
  Qed.

  Lemma II_any v tv : II AAny v tv = (Ok true, tv).
  Proof. cbn [is_inst]. rewrite has_required_any. simpl. now rewrite (gf_any cfg good). Qed.

  Lemma II_plain c v tv : plain_cls_ok c = true -> II (ACls c) v tv = (Ok (isinstance v c), tv).
  Proof.
    intro Hp. cbn [is_inst]. rewrite (hr_untabled (ACls c) eq_refl). simpl negb. cbv iota.
    unfold inst_cls. unfold plain_cls_ok in Hp. apply andb_true_iff in Hp as [Hb _]. apply negb_true_iff in Hb.
    now rewrite (in_bare_false c Hb).
  Qed.

  Lemma II_union sp args v tv :
    II (AUnion sp args) v tv = union_f cfg hook (fun m => II m) args v tv.
  Proof.
    cbn [is_inst]. rewrite (has_required_union sp args). simpl negb. cbv iota.
    destruct sp; [|reflexivity].
    destruct (is_optional args); [now rewrite (gf_optional cfg good)|now rewrite (gf_union cfg good)].
  Qed.

  (* members of a Union of the vocabulary: plain classes and one TypeVar *)
  Lemma members_plain v : forall l tv acc,
    (forall m, In m l -> is_tv m = true \/ plain_member m = true) ->
    members_f cfg (fun m => II m) v l tv acc =
    (Ok (acc || existsb (fun m => match m with ACls c => isinstance v c | _ => false end) l), tv).
  Proof.
    induction l as [|m l IH]; intros tv acc H; simpl.
    - now rewrite orb_false_r.
    - destruct (H m (or_introl eq_refl)) as [Hm|Hm].
      + destruct m; try discriminate. simpl. apply IH. intros y Hy. apply H. now right.
      + destruct m; try discriminate. simpl is_typevar. cbv iota.
        rewrite (II_plain c v tv Hm), (gf_un cfg good).
        rewrite IH by (intros y Hy; apply H; now right). now rewrite orb_assoc.
  Qed.

  Lemma union_tail_one t v : forall l tv0 tv,
    (forall m, In m l -> is_tv m = true \/ plain_member m = true) ->
    filter is_tv l = [ATypeVar t] ->
    union_tail cfg hook l tv0 v tv =
    match tv_lookup tv0 (tv_id t) with
    | Some _ => match typevar_check hook t v tv with
                | (Ok b, tv') => (Ok b, tv')
                | (Raise e, tv') => if is_pedantic e then (Ok false, tv') else (Raise e, tv')
                end
    | None => typevar_check hook t v tv
    end.
  Proof.
    intros l tv0 tv H Hf. unfold union_tail.
    assert (Hnone : forall l', (forall m, In m l' -> is_tv m = true \/ plain_member m = true) -> filter is_tv l' = [] ->
                    forall tvx, union_bounded cfg hook l' tv0 v tvx = (None, tvx) /\ union_unbounded l' tv0 = []).
    { induction l' as [|m l' IH]; intros H' Hf' tvx; simpl; [auto|].
      destruct (H' m (or_introl eq_refl)) as [Hm|Hm]; destruct m; try discriminate.
      apply IH; [intros y Hy; apply H'; now right|exact Hf']. }
    induction l as [|m l IH]; [discriminate|].
    destruct (H m (or_introl eq_refl)) as [Hm|Hm]; destruct m; try discriminate.
    - (* the TypeVar *)
      simpl in Hf. injection Hf as Ht H2. subst t0. simpl.
      destruct (Hnone l (fun y Hy => H y (or_intror Hy)) H2 tv) as [_ Hu].
      destruct (tv_lookup tv0 (tv_id t)) eqn:El.
      + destruct (typevar_check hook t v tv) as [[[|]|e] tv'] eqn:Et.
        * reflexivity.
        * rewrite Hub. destruct (Hnone l (fun y Hy => H y (or_intror Hy)) H2 tv') as [-> _]. now rewrite Hu.
        * destruct (is_pedantic e); [|reflexivity].
          destruct (Hnone l (fun y Hy => H y (or_intror Hy)) H2 tv') as [-> _]. now rewrite Hu.
      + destruct (Hnone l (fun y Hy => H y (or_intror Hy)) H2 tv) as [-> _]. now rewrite Hu.
    - (* plain class first *) simpl. simpl in Hf. apply IH; [intros y Hy; apply H; now right|exact Hf].
  Qed.

  Lemma tc_unbound_no_raise t v tv : tv_lookup tv (tv_id t) = None ->
    exists b tv', typevar_check hook t v tv = (Ok b, tv').
  Proof.
    intro El. destruct (tv_admits t v) eqn:Ea.
    - rewrite (tc_admitted hook _ _ _ Ea), El. eauto.
    - rewrite (tc_guard hook _ _ _ Ea). eauto.
  Qed.

  Lemma union_vocab_run args t v tv :
    (forall m, In m args -> is_tv m = true \/ plain_member m = true) ->
    filter is_tv args = [ATypeVar t] ->
    forall sp, II (AUnion sp args) v tv = RUN (matched false (AUnion sp args) v) tv.
  Proof.
    intros H Hf sp. rewrite (II_union sp args v tv). unfold union_f. rewrite (gf_un cfg good).
    rewrite (members_plain v args tv false H). simpl orb. cbn [matched].
    destruct (existsb _ args); [reflexivity|].
    rewrite Hf, (union_tail_one t v args tv tv H Hf). simpl. unfold tc_pos. simpl.
    destruct (tv_lookup tv (tv_id t)) eqn:El.
    - unfold union_conv. destruct (typevar_check hook t v tv) as [[[|]|e] tv']; try reflexivity.
      destruct (is_pedantic e); reflexivity.
    - destruct (tc_unbound_no_raise t v tv El) as [b [tv' ->]]. simpl. now destruct b.
  Qed.

  Lemma members_erased v : forall l tv acc,
    (forall m, In m l -> is_tv m = true \/ plain_member m = true) ->
    members_f cfg (fun m => II m) v (map erase l) tv acc =
    (Ok (acc || existsb (fun m => is_tv m || match m with ACls c => isinstance v c | _ => false end) l), tv).
  Proof.
    induction l as [|m l IH]; intros tv acc H; simpl.
    - now rewrite orb_false_r.
    - destruct (H m (or_introl eq_refl)) as [Hm|Hm]; destruct m; try discriminate.
      + (* TypeVar, erased to Any *) cbn [erase]. simpl is_typevar. cbv iota.
        rewrite II_any, (gf_un cfg good).
        rewrite IH by (intros y Hy; apply H; now right). simpl. now rewrite !orb_true_r.
      + (* plain class *) cbn [erase]. simpl is_typevar. cbv iota.
        rewrite (II_plain c v tv Hm), (gf_un cfg good).
        rewrite IH by (intros y Hy; apply H; now right). simpl. now rewrite orb_assoc.
  Qed.

  Lemma union_vocab_EI sp args t :
    (forall m, In m args -> is_tv m = true \/ plain_member m = true) ->
    filter is_tv args = [ATypeVar t] -> forall v, EI (AUnion sp args) v = Ok true.
  Proof.
    intros H Hf v. unfold EI. cbn [erase].
    rewrite II_union.
    unfold union_f. rewrite (gf_un cfg good), (members_erased v args [] false H). simpl orb.
    assert (Hex : existsb (fun m => is_tv m || match m with ACls c => isinstance v c | _ => false end) args = true).
    { assert (Hin : In (ATypeVar t) (filter is_tv args)) by (rewrite Hf; now left).
      apply filter_In in Hin as [Hin _]. apply existsb_exists. exists (ATypeVar t). auto. }
    now rewrite Hex.
  Qed.

  (* ---- generic aliases ---------------------------------------------------------------------------- *)
  Definition conv_of (sp : spell) (o : tname) (args : list ann) : outcome unit :=
    match sp with SpTyping => Ok tt | _ => conv_ok cfg (AGeneric sp o args) end.

  Lemma II_generic sp o args v tv : origin_kind o <> KNone -> arity_ok o (List.length args) = true ->
    II (AGeneric sp o args) v tv =
    match conv_of sp o args with
    | Raise e => (Raise e, tv)
    | Ok _ => generic_f cfg (fun x => II x) o args v tv
    end.
  Proof.
    intros Hk Ha. cbn [is_inst]. rewrite (has_required_generic sp o args Hk Ha). simpl negb. cbv iota.
    destruct sp; reflexivity.
  Qed.

  Lemma conv_of_erase sp o args : conv_of sp o (map erase args) = conv_of sp o args.
  Proof. destruct sp; [reflexivity|exact (conv_ok_erase (AGeneric _ o args)) ..]. Qed.

  Lemma EI_generic sp o args v : origin_kind o <> KNone -> arity_ok o (List.length args) = true ->
    EI (AGeneric sp o args) v =
    match conv_of sp o args with
    | Raise e => Raise e
    | Ok _ => fst (generic_f cfg (fun x => II x) o (map erase args) v [])
    end.
  Proof.
    intros Hk Ha. unfold EI. cbn [erase]. rewrite II_generic by (rewrite ?map_length; assumption).
    rewrite conv_of_erase. now destruct (conv_of sp o args).
  Qed.

  Lemma pair_acc ka va : P_acc ka -> P_acc va -> forall kv tv tv',
    pair_check cfg (fun x => II x) ka va kv tv = (Ok true, tv') -> EI ka (fst kv) = Ok true /\ EI va (snd kv) = Ok true.
  Proof.
    intros Hk Hv kv tv tv' H. rewrite pair_shape in H.
    destruct (II ka (fst kv) tv) as [[[|]|e] tv1] eqn:E1; try discriminate.
    split; [eapply Hk; eassumption|eapply Hv; eassumption].
  Qed.

  Lemma pair_erased ka va kv tv :
    pair_check cfg (fun x => II x) (erase ka) (erase va) kv tv =
    (match EI ka (fst kv) with Ok true => EI va (snd kv) | r => r end, tv).
  Proof.
    rewrite pair_shape, EI_frame. destruct (EI ka (fst kv)) as [[|]|e]; try reflexivity. apply EI_frame.
  Qed.

  Lemma pair_run ka va : P_run ka -> P_run va -> forall kv tv,
    EI ka (fst kv) = Ok true -> EI va (snd kv) = Ok true ->
    pair_check cfg (fun x => II x) ka va kv tv = RUN (matched false ka (fst kv) ++ matched false va (snd kv)) tv.
  Proof.
    intros Hk Hv kv tv E1 E2. rewrite pair_shape, run_tc_app, (Hk _ tv E1).
    destruct (RUN (matched false ka (fst kv)) tv) as [[[|]|e] tv1]; try reflexivity. now apply Hv.
  Qed.

  Lemma zip_acc : forall args, Forall P_acc args -> forall vs tv tv',
    zip_f cfg (fun x => II x) args vs tv = (Ok true, tv') ->
    forall tvx, zip_f cfg (fun x => II x) (map erase args) vs tvx = (Ok true, tvx).
  Proof.
    induction args as [|a0 args IH]; intros HF vs tv tv' H tvx; rewrite zip_shape; [reflexivity|].
    destruct vs as [|v0 vs]; [reflexivity|]. cbn [map]. rewrite zip_shape in H.
    inversion HF as [|? ? H0 HF']; subst.
    destruct (II a0 v0 tv) as [[[|]|e] tv1] eqn:E1; try discriminate.
    rewrite EI_frame, (H0 _ _ _ E1). eapply IH; eassumption.
  Qed.

  Lemma zip_run : forall args, Forall P_run args -> forall vs tv,
    (forall tvx, zip_f cfg (fun x => II x) (map erase args) vs tvx = (Ok true, tvx)) ->
    zip_f cfg (fun x => II x) args vs tv = RUN (zip_trace args vs) tv.
  Proof.
    induction args as [|a0 args IH]; intros HF vs tv He; rewrite zip_shape; [reflexivity|].
    destruct vs as [|v0 vs]; [reflexivity|]. inversion HF as [|? ? H0 HF']; subst.
    assert (He0 : EI a0 v0 = Ok true /\ forall tvx, zip_f cfg (fun x => II x) (map erase args) vs tvx = (Ok true, tvx)).
    { pose proof (He []) as H1. cbn [map] in H1. rewrite zip_shape, EI_frame in H1.
      destruct (EI a0 v0) as [[|]|e] eqn:E; try discriminate. split; [reflexivity|].
      intro tvx. specialize (He tvx). cbn [map] in He. rewrite zip_shape, EI_frame, E in He. exact He. }
    destruct He0 as [E0 He']. cbn [zip_trace]. rewrite run_tc_app, (H0 _ tv E0).
    destruct (RUN (matched false a0 v0) tv) as [[[|]|e] tv1]; try reflexivity. now apply IH.
  Qed.

  Theorem refine_both : forall a, tv_vocab a = true -> P_acc a /\ P_run a.
  Proof.
    induction a using ann_ind'; intro Hv.
    all: match type of Hv with tv_vocab ?x = true => destruct (inert x) eqn:Ein end.
    all: try (split; [now apply leaf_acc|now apply leaf_run]).
    all: try discriminate Ein.
    all: try (cbn [tv_vocab] in Hv; rewrite Ein in Hv; discriminate Hv).
    - (* Union *)
      cbn [tv_vocab] in Hv. rewrite Ein in Hv. apply andb_true_iff in Hv as [H1 H2]. apply Nat.eqb_eq in H1.
      assert (Hm : forall m, In m args -> is_tv m = true \/ plain_member m = true).
      { intros m Hm. rewrite forallb_forall in H2. specialize (H2 m Hm). now apply orb_true_iff in H2. }
      destruct (filter is_tv args) as [|x [|? ?]] eqn:Ef; try discriminate H1.
      assert (Hx : is_tv x = true). { assert (Hi : In x (filter is_tv args)) by (rewrite Ef; now left). now apply filter_In in Hi. }
      destruct x; try discriminate Hx.
      split.
      + intros v tv tv' _. now apply (union_vocab_EI sp args t).
      + intros v tv _. now apply (union_vocab_run args t).
    - (* Generic *)
      cbn [tv_vocab] in Hv. rewrite Ein in Hv.
      assert (Hk : origin_kind o <> KNone) by (intro E; rewrite E in Hv; discriminate).
      assert (Hv' : arity_ok o (List.length args) = true /\ forallb tv_vocab args = true).
      { destruct (origin_kind o); try discriminate Hv; now apply andb_true_iff in Hv. }
      destruct Hv' as [Ha Hargs]. rewrite forallb_forall in Hargs. rewrite Forall_forall in H.
      assert (HA : forall a0, In a0 args -> P_acc a0) by (intros a0 Hi; now apply H, Hargs).
      assert (HR : forall a0, In a0 args -> P_run a0) by (intros a0 Hi; now apply H, Hargs).
      destruct (origin_kind o) eqn:Ek; try discriminate Hv.
      all: assert (Hk' : origin_kind o <> KNone) by (rewrite Ek; discriminate).
      + (* element-wise *)
        unfold arity_ok in Ha. rewrite Ek in Ha. apply Nat.eqb_eq in Ha.
        destruct args as [|a0 [|? ?]]; try discriminate Ha.
        assert (Ha' : arity_ok o (List.length [a0]) = true) by (unfold arity_ok; now rewrite Ek).
        pose proof (HA a0 (or_introl eq_refl)) as HA0. pose proof (HR a0 (or_introl eq_refl)) as HR0.
        split.
        * intros v tv tv' Hr. rewrite (II_generic sp o [a0] v tv Hk' Ha') in Hr. rewrite (EI_generic sp o [a0] v Hk' Ha').
          destruct (conv_of sp o [a0]); [|discriminate]. cbn [map].
          rewrite generic_elems in * by assumption.
          destruct (abc_instance o (class_of v)); [|discriminate].
          destruct (iter_values v) as [l|]; [|discriminate].
          rewrite (q_all_framed_true (II (erase a0)) l); [reflexivity|].
          intros x Hx tvx. rewrite EI_frame.
          destruct (q_all_true_elems _ _ _ _ Hr x Hx) as [t1 [t2 Hx']]. now rewrite (HA0 _ _ _ Hx').
        * intros v tv He. rewrite (EI_generic sp o [a0] v Hk' Ha') in He. rewrite (II_generic sp o [a0] v tv Hk' Ha').
          destruct (conv_of sp o [a0]); [|discriminate]. cbn [map] in He.
          rewrite generic_elems in * by assumption. cbn [matched]. rewrite Ek.
          destruct (abc_instance o (class_of v)); [|discriminate].
          destruct (iter_values v) as [l|]; [|discriminate].
          apply q_all_run. intros x Hx tvx. apply HR0.
          exact (q_all_framed_elems (II (erase a0)) (EI a0) l (fun x tv => EI_frame a0 x tv) [] He x Hx).
      + (* mapping *)
        unfold arity_ok in Ha. rewrite Ek in Ha. apply Nat.eqb_eq in Ha.
        destruct args as [|ka [|va [|? ?]]]; try discriminate Ha.
        assert (Ha' : arity_ok o (List.length [ka; va]) = true) by (unfold arity_ok; now rewrite Ek).
        pose proof (HA ka (or_introl eq_refl)) as HAk. pose proof (HR ka (or_introl eq_refl)) as HRk.
        pose proof (HA va (or_intror (or_introl eq_refl))) as HAv. pose proof (HR va (or_intror (or_introl eq_refl))) as HRv.
        split.
        * intros v tv tv' Hr. rewrite (II_generic sp o [ka; va] v tv Hk' Ha') in Hr. rewrite (EI_generic sp o [ka; va] v Hk' Ha').
          destruct (conv_of sp o [ka; va]); [|discriminate]. cbn [map].
          rewrite generic_mapping in * by assumption.
          destruct (abc_instance o (class_of v)); [|discriminate].
          destruct (items_of v) as [kvs|]; [|discriminate].
          rewrite (q_all_framed_true (pair_check cfg (fun x => II x) (erase ka) (erase va)) kvs); [reflexivity|].
          intros kv Hx tvx. rewrite pair_erased.
          destruct (q_all_true_elems _ _ _ _ Hr kv Hx) as [t1 [t2 Hx']].
          destruct (pair_acc ka va HAk HAv _ _ _ Hx') as [-> ->]. reflexivity.
        * intros v tv He. rewrite (EI_generic sp o [ka; va] v Hk' Ha') in He. rewrite (II_generic sp o [ka; va] v tv Hk' Ha').
          destruct (conv_of sp o [ka; va]); [|discriminate]. cbn [map] in He.
          rewrite generic_mapping in * by assumption. cbn [matched]. rewrite Ek.
          destruct (abc_instance o (class_of v)); [|discriminate].
          destruct (items_of v) as [kvs|]; [|discriminate].
          apply (q_all_run hook (pair_check cfg (fun x => II x) ka va)
                   (fun kv => matched false ka (fst kv) ++ matched false va (snd kv))).
          intros kv Hx tvx.
          pose proof (q_all_framed_elems (pair_check cfg (fun x => II x) (erase ka) (erase va))
                        (fun kv => match EI ka (fst kv) with Ok true => EI va (snd kv) | r => r end) kvs
                        (fun kv tv => pair_erased ka va kv tv) [] He kv Hx) as Hkv.
          revert Hkv. cbv beta. destruct (EI ka (fst kv)) as [[|]|e] eqn:E1; intro Hkv; try discriminate Hkv.
          apply pair_run; assumption.
      + (* items view *)
        pose proof (kitems_is o Ek) as ->.
        unfold arity_ok in Ha. simpl in Ha. apply Nat.eqb_eq in Ha.
        destruct args as [|ka [|va [|? ?]]]; try discriminate Ha.
        assert (Ha' : arity_ok TItemsView (List.length [ka; va]) = true) by reflexivity.
        pose proof (HA ka (or_introl eq_refl)) as HAk. pose proof (HR ka (or_introl eq_refl)) as HRk.
        pose proof (HA va (or_intror (or_introl eq_refl))) as HAv. pose proof (HR va (or_intror (or_introl eq_refl))) as HRv.
        split.
        * intros v tv tv' Hr. rewrite (II_generic sp TItemsView [ka; va] v tv Hk' Ha') in Hr. rewrite (EI_generic sp TItemsView [ka; va] v Hk' Ha').
          destruct (conv_of sp TItemsView [ka; va]); [|discriminate]. cbn [map].
          rewrite generic_items in *.
          destruct (pairs_of v) as [kvs|]; [|discriminate].
          rewrite (q_all_framed_true (pair_check cfg (fun x => II x) (erase ka) (erase va)) kvs); [reflexivity|].
          intros kv Hx tvx. rewrite pair_erased.
          destruct (q_all_true_elems _ _ _ _ Hr kv Hx) as [t1 [t2 Hx']].
          destruct (pair_acc ka va HAk HAv _ _ _ Hx') as [-> ->]. reflexivity.
        * intros v tv He. rewrite (EI_generic sp TItemsView [ka; va] v Hk' Ha') in He. rewrite (II_generic sp TItemsView [ka; va] v tv Hk' Ha').
          destruct (conv_of sp TItemsView [ka; va]); [|discriminate]. cbn [map] in He.
          rewrite generic_items in *. cbn [matched]. cbn [origin_kind].
          destruct (pairs_of v) as [kvs|]; [|discriminate].
          apply (q_all_run hook (pair_check cfg (fun x => II x) ka va)
                   (fun kv => matched false ka (fst kv) ++ matched false va (snd kv))).
          intros kv Hx tvx.
          pose proof (q_all_framed_elems (pair_check cfg (fun x => II x) (erase ka) (erase va))
                        (fun kv => match EI ka (fst kv) with Ok true => EI va (snd kv) | r => r end) kvs
                        (fun kv tv => pair_erased ka va kv tv) [] He kv Hx) as Hkv.
          revert Hkv. cbv beta. destruct (EI ka (fst kv)) as [[|]|e] eqn:E1; intro Hkv; try discriminate Hkv.
          apply pair_run; assumption.
      + (* tuple *)
        pose proof (ktuple_is o Ek) as ->.
        assert (Hl : 1 <= List.length args) by (unfold arity_ok in Ha; cbn [origin_kind] in Ha; now apply Nat.leb_le in Ha).
        assert (FA : Forall P_acc args) by (apply Forall_forall; assumption).
        assert (FR : Forall P_run args) by (apply Forall_forall; assumption).
        split.
        * intros v tv tv' Hr. rewrite (II_generic sp TTuple args v tv Hk' Ha) in Hr. rewrite (EI_generic sp TTuple args v Hk' Ha).
          destruct (conv_of sp TTuple args); [|discriminate].
          rewrite generic_tuple in * by (rewrite ?map_length; assumption).
          destruct v; try discriminate. rewrite map_length.
          destruct (Nat.eqb (List.length l) (List.length args)); [|discriminate].
          now rewrite (zip_acc args FA l tv tv' Hr []).
        * intros v tv He. rewrite (EI_generic sp TTuple args v Hk' Ha) in He. rewrite (II_generic sp TTuple args v tv Hk' Ha).
          destruct (conv_of sp TTuple args); [|discriminate].
          rewrite generic_tuple in * by (rewrite ?map_length; assumption).
          destruct v; try discriminate. rewrite matched_tuple by reflexivity. rewrite map_length in He.
          destruct (Nat.eqb (List.length l) (List.length args)); [|discriminate].
          apply zip_run; [assumption|].
          intro tvx. destruct (inert_uniform cfg ctx (erase (AGeneric SpTyping TTuple args)) (erase_inert _) (VTuple l)) as [r Hr].
          (* the erased zip is framed: derive it from the frame of the erased tuple annotation *)
          assert (Hz : forall tvy, zip_f cfg (fun x => II x) (map erase args) l tvy = (fst (zip_f cfg (fun x => II x) (map erase args) l []), tvy)).
          { clear -good Hub. intro tvy.
            destruct (zip_uniform cfg (fun h x => is_inst cfg ctx h x) (map erase args) l) as [rz Hrz].
            - intros a0 Hin w. apply in_map_iff in Hin as [y [<- _]]. apply inert_uniform, erase_inert.
            - now rewrite !Hrz. }
          rewrite Hz. rewrite Hz in He. simpl in He. now rewrite He.
    - (* TupleVar *)
      cbn [tv_vocab] in Hv. rewrite Ein in Hv. destruct (IHa Hv) as [HA0 HR0].
      assert (HII : forall b v tv, II (ATupleVar sp b) v tv =
                match (match sp with SpTyping => Ok tt | _ => conv_ok cfg (ATupleVar sp b) end) with
                | Raise e => (Raise e, tv)
                | Ok _ => tuple_var_f cfg (fun x => II x) b v tv
                end).
      { intros b v tv. cbn [is_inst]. rewrite has_required_tuplevar. simpl negb. cbv iota. destruct sp; reflexivity. }
      assert (Hc : (match sp with SpTyping => Ok tt | _ => conv_ok cfg (ATupleVar sp (erase a)) end)
                 = (match sp with SpTyping => Ok tt | _ => conv_ok cfg (ATupleVar sp a) end)).
      { destruct sp; [reflexivity|exact (conv_ok_erase (ATupleVar _ a)) ..]. }
      split.
      + intros v tv tv' Hr. unfold EI. cbn [erase]. rewrite HII in *. rewrite Hc.
        destruct (match sp with SpTyping => Ok tt | _ => conv_ok cfg (ATupleVar sp a) end); [|discriminate].
        rewrite tuple_var_shape in *. destruct v; try discriminate.
        rewrite (q_all_framed_true (II (erase a)) l); [reflexivity|].
        intros x Hx tvx. rewrite EI_frame.
        destruct (q_all_true_elems _ _ _ _ Hr x Hx) as [t1 [t2 Hx']]. now rewrite (HA0 _ _ _ Hx').
      + intros v tv He. unfold EI in He. cbn [erase] in He. rewrite HII in *. rewrite Hc in He.
        destruct (match sp with SpTyping => Ok tt | _ => conv_ok cfg (ATupleVar sp a) end); [|discriminate].
        rewrite tuple_var_shape in *. cbn [matched]. destruct v; try discriminate.
        apply q_all_run. intros x Hx tvx. apply HR0.
        exact (q_all_framed_elems (II (erase a)) (EI a) l (fun x tv => EI_frame a x tv) [] He x Hx).
    - (* TypeVar *)
      split.
      + intros v tv tv' _. unfold EI. cbn [erase]. now rewrite II_any.
      + intros v tv _. cbn [is_inst matched]. rewrite (hr_untabled (ATypeVar t) eq_refl). simpl negb. cbv iota.
        simpl run_tc. unfold tc_pos. simpl. destruct (typevar_check hook t v tv) as [[[|]|e] tv1]; reflexivity.
  Qed.
End Refine.

(* ---- from is_inst to assert_value_matches_type and to whole calls ------------------------------------ *)
Section Calls.
  Variable cfg : checker_cfg.
  Hypothesis good : good_facts cfg.
  Hypothesis Hub : un_bound_uses_result cfg = true.
  Variable ctx : nat -> option cls.
  Variable hook : ann -> value -> tvenv -> res.

  Notation II := (is_inst cfg ctx hook).
  Notation RUN := (run_tc hook).
  Notation CT := (check_type cfg ctx hook).
  Notation AM := (assert_matches cfg ctx hook).

  Lemma handle_raises : forall hs e, (forall h, In h hs -> is_pedantic_raise (snd h) = true) ->
    exists e', handle hs e = Raise e'.
  Proof.
    induction hs as [|[cs act] hs IH]; intros e H; simpl; [eauto|].
    destruct (existsb (derives e) cs).
    - specialize (H (cs, act) (or_introl eq_refl)). simpl in H. destruct act; try discriminate. eauto.
    - apply IH. intros h Hh. apply H. now right.
  Qed.

  (* the structural verdict of a position: the erased annotation, checked at top level *)
  Definition pos_struct (a : ann) (v : value) : Prop := fst (CT (erase a) v []) = Ok true.

  Lemma run_bare b a v tv : RUN (matched b a v) tv = RUN (matched false a v) tv.
  Proof. destruct a; try reflexivity. Qed.

  Definition lift (r : res) : outcome unit * tvenv :=
    match r with
    | (Ok true, tv') => (Ok tt, tv')
    | (Ok false, tv') => (Raise (mismatch_raises cfg), tv')
    | (Raise e, tv') => (match handle (handlers cfg) e with
                         | Ok true => Ok tt | Ok false => Raise (mismatch_raises cfg) | Raise e' => Raise e' end, tv')
    end.

  Lemma CT_erase_is a v : (forall n, a <> AStr n) -> a <> ANone ->
    fst (CT (erase a) v []) = Ok true <-> EI cfg ctx hook a v = Ok true.
  Proof.
    intros Hs Hn. unfold EI.
    assert (Hc : CT (erase a) v [] = match II (erase a) v [] with
                                     | (Ok b, tv') => (Ok b, tv')
                                     | (Raise e, tv') => (handle (handlers cfg) e, tv') end).
    { unfold check_type. destruct a; try reflexivity; [now elim Hn|now elim (Hs name)]. }
    rewrite Hc. destruct (II (erase a) v []) as [[b|e] tv']; simpl; [tauto|].
    destruct (handle_raises (handlers cfg) e (gf_handlers_ped cfg good)) as [e' ->]. split; discriminate.
  Qed.

  Lemma AM_shape a v tv : (forall n, a <> AStr n) -> a <> ANone -> AM a v tv = lift (II a v tv).
  Proof.
    intros Hs Hn. unfold assert_matches, assert_gen, lift.
    assert (Hc : check_type_gen cfg ctx (is_inst cfg ctx hook) a v tv = match II a v tv with
                             | (Ok b, tv') => (Ok b, tv')
                             | (Raise e, tv') => (handle (handlers cfg) e, tv') end).
    { destruct a; try reflexivity; [now elim Hn|now elim (Hs name)]. }
    rewrite Hc. destruct (II a v tv) as [[[|]|e] tv']; try reflexivity.
    destruct (handle (handlers cfg) e) as [[|]|]; reflexivity.
  Qed.

  (* one position *)
  Theorem position_run b a v tv : tv_vocab a = true -> pos_struct a v -> AM a v tv = lift (RUN (matched b a v) tv).
  Proof.
    intros Hv Hs. rewrite run_bare.
    destruct a; try (rewrite AM_shape by discriminate;
                     rewrite (proj2 (refine_both cfg good Hub ctx hook _ Hv) v tv); [reflexivity|];
                     apply CT_erase_is; try discriminate; exact Hs).
    - (* None *) unfold pos_struct, check_type in Hs. unfold assert_matches, assert_gen. simpl in *.
      injection Hs as Hs. now rewrite Hs.
    - (* string *) unfold pos_struct, check_type in Hs. unfold assert_matches, assert_gen. simpl in *.
      destruct (ctx name); [|discriminate Hs]. injection Hs as Hs. now rewrite Hs.
  Qed.

  Theorem position_acc b a v tv tv' : tv_vocab a = true -> AM a v tv = (Ok tt, tv') ->
    pos_struct a v /\ RUN (matched b a v) tv = (Ok true, tv').
  Proof.
    intros Hv H.
    assert (Hgen : (forall n, a <> AStr n) -> a <> ANone -> pos_struct a v /\ RUN (matched b a v) tv = (Ok true, tv')).
    { intros Hs Hn. rewrite AM_shape in H by assumption. unfold lift in H.
      destruct (II a v tv) as [[[|]|e] tv1] eqn:E; try discriminate.
      - inversion H; subst. destruct (refine_both cfg good Hub ctx hook a Hv) as [HA HR].
        pose proof (HA _ _ _ E) as HE. split; [now apply CT_erase_is|].
        rewrite run_bare, <- (HR v tv HE). exact E.
      - destruct (handle_raises (handlers cfg) e (gf_handlers_ped cfg good)) as [e' He]. rewrite He in H. discriminate. }
    destruct a; try (apply Hgen; discriminate).
    - unfold assert_matches, assert_gen in H. unfold pos_struct, check_type. simpl in *.
      destruct (if none_by_eq cfg then match v with VNone => true | _ => false end else false); inversion H; auto.
    - unfold assert_matches, assert_gen in H. unfold pos_struct, check_type. simpl in *.
      destruct (ctx name); [destruct (if str_walks_mro cfg then isinstance v c else cls_eqb (class_of v) c)|]; inversion H; auto.
  Qed.

  (* all positions of a call, in checking order: parameters, then the result *)
  Fixpoint traces (ps : list ann) (vs : list value) : list mpos :=
    match ps, vs with
    | a :: ps', v :: vs' => matched true a v ++ traces ps' vs'
    | _, _ => []
    end.
  Fixpoint all_struct (ps : list ann) (vs : list value) : Prop :=
    match ps, vs with
    | a :: ps', v :: vs' => pos_struct a v /\ all_struct ps' vs'
    | _, _ => True
    end.

  Lemma traces_app ps1 vs1 ps2 vs2 : List.length ps1 = List.length vs1 ->
    traces (ps1 ++ ps2) (vs1 ++ vs2) = traces ps1 vs1 ++ traces ps2 vs2.
  Proof.
    revert vs1. induction ps1 as [|a ps1 IH]; intros [|v vs1] Hl; try discriminate; [reflexivity|].
    simpl. rewrite <- app_assoc. f_equal. apply IH. now inversion Hl.
  Qed.
  Lemma all_struct_app ps1 vs1 ps2 vs2 : List.length ps1 = List.length vs1 ->
    all_struct (ps1 ++ ps2) (vs1 ++ vs2) <-> all_struct ps1 vs1 /\ all_struct ps2 vs2.
  Proof.
    revert vs1. induction ps1 as [|a ps1 IH]; intros [|v vs1] Hl; try discriminate; simpl; [tauto|].
    rewrite IH by (now inversion Hl). tauto.
  Qed.

End Calls.

(* ---- plain calls: one table per call, starting empty ---------------------------------------------------- *)
Definition mismatch_handled (cfg : checker_cfg) : bool :=
  match handle (handlers cfg) PTypeVarMismatchC with Raise e => derives e PTypeVarMismatchC | _ => false end.

Lemma accepted_admits hook : forall l tv tv', run_tc hook l tv = (Ok true, tv') ->
  forall p, In p l -> tv_admits (mp_tv p) (mp_val p) = true.
Proof.
  induction l as [|q l IH]; intros tv tv' H p Hp; [destruct Hp|].
  simpl in H. destruct (tc_pos hook q tv) as [[[|]|e] tv1] eqn:E; try discriminate.
  destruct Hp as [<-|Hp]; [|eapply IH; eassumption].
  apply tc_pos_ok in E. destruct (tv_admits (mp_tv q) (mp_val q)) eqn:Ea; [reflexivity|].
  rewrite (tc_guard hook _ _ _ Ea) in E. discriminate.
Qed.

Lemma pairwise_related_in : forall l, pairwise_related l = true -> forall x y, In x l -> In y l -> related x y = true.
Proof.
  induction l as [|c l IH]; intros H x y Hx Hy; [destruct Hx|].
  simpl in H. apply andb_true_iff in H as [H1 H2]. rewrite forallb_forall in H1.
  destruct Hx as [<-|Hx], Hy as [<-|Hy].
  - unfold related. now rewrite subclass_refl.
  - now apply H1.
  - rewrite related_sym. now apply H1.
  - now apply IH.
Qed.

Section PlainCall.
  Variable cfg : checker_cfg.
  Hypothesis good : good_facts cfg.
  Hypothesis Hub : un_bound_uses_result cfg = true.
  Variable ctx : nat -> option cls.

  Let hook := is_inst0 cfg ctx.
  Notation RUN := (run_tc hook).
  Notation LIFT := (lift cfg).
  Notation STRUCT := (all_struct cfg ctx hook).
  Notation ID := (fun tb : tvenv => tb).

  Lemma lift_ok r tv' : LIFT r = (Ok tt, tv') -> r = (Ok true, tv').
  Proof.
    destruct r as [[[|]|e] tv1]; simpl; intro H; try discriminate; [now inversion H|].
    destruct (handle_raises (handlers cfg) e (gf_handlers_ped cfg good)) as [e' He]. rewrite He in H. discriminate.
  Qed.

  Lemma lift_app l1 l2 tb :
    LIFT (RUN (l1 ++ l2) tb) = match LIFT (RUN l1 tb) with (Ok _, tb') => LIFT (RUN l2 tb') | r => r end.
  Proof.
    rewrite run_tc_app. destruct (RUN l1 tb) as [[[|]|e] tb1]; try reflexivity. simpl.
    destruct (handle_raises (handlers cfg) e (gf_handlers_ped cfg good)) as [e' ->]. reflexivity.
  Qed.

  Lemma seq_run : forall ps vs tb, List.length ps = List.length vs -> forallb tv_vocab ps = true -> STRUCT ps vs ->
    check_seq cfg ctx ID ps vs tb = LIFT (RUN (traces ps vs) tb).
  Proof.
    induction ps as [|a ps IH]; intros [|v vs] tb Hl Hv Hs; try discriminate; [reflexivity|].
    simpl in Hv. apply andb_true_iff in Hv as [Hva Hvp]. destruct Hs as [Hsa Hsp].
    cbn [check_seq traces]. rewrite lift_app.
    cbv beta. change (amatch cfg ctx a v tb) with (assert_matches cfg ctx hook a v tb).
    rewrite (position_run cfg good Hub ctx hook true a v tb Hva Hsa).
    destruct (LIFT (RUN (matched true a v) tb)) as [[u|e] tb1]; [|reflexivity].
    apply IH; [now inversion Hl|assumption|assumption].
  Qed.

  Lemma seq_acc : forall ps vs tb tb', List.length ps = List.length vs -> forallb tv_vocab ps = true ->
    check_seq cfg ctx ID ps vs tb = (Ok tt, tb') -> STRUCT ps vs /\ RUN (traces ps vs) tb = (Ok true, tb').
  Proof.
    induction ps as [|a ps IH]; intros [|v vs] tb tb' Hl Hv H; try discriminate.
    - simpl in *. inversion H. auto.
    - simpl in Hv. apply andb_true_iff in Hv as [Hva Hvp]. cbn [check_seq] in H.
      cbv beta in H. change (amatch cfg ctx a v tb) with (assert_matches cfg ctx hook a v tb) in H.
      destruct (assert_matches cfg ctx hook a v tb) as [[u|e] tb1] eqn:E; [|discriminate]. destruct u.
      destruct (position_acc cfg good Hub ctx hook true a v tb tb1 Hva E) as [Hs Hr].
      destruct (IH vs tb1 tb' ltac:(now inversion Hl) Hvp H) as [Hs' Hr'].
      split; [split; assumption|]. cbn [traces]. rewrite run_tc_app, Hr. exact Hr'.
  Qed.

  Lemma check_seq_snoc : forall ps vs a v tb, List.length ps = List.length vs ->
    check_seq cfg ctx ID (ps ++ [a]) (vs ++ [v]) tb =
    match check_seq cfg ctx ID ps vs tb with
    | (Ok _, tb1) => match amatch cfg ctx a v tb1 with (Ok _, tb2) => (Ok tt, tb2) | (Raise e, tb2) => (Raise e, tb2) end
    | r => r
    end.
  Proof.
    induction ps as [|a0 ps IH]; intros [|v0 vs] a v tb Hl; try discriminate.
    - simpl. destruct (amatch cfg ctx a v tb) as [[u|e] tb2]; reflexivity.
    - cbn [app check_seq]. destruct (amatch cfg ctx a0 v0 tb) as [[u|e] tb1]; [|reflexivity].
      apply IH. now inversion Hl.
  Qed.

  (* a whole call = parameters, then the result, on one table *)
  Lemma run_call_seq sg args ret tb : List.length (ms_params sg) = List.length args ->
    fst (run_call cfg ctx ID sg args ret tb) = fst (check_seq cfg ctx ID (sig_positions sg) (args ++ [ret]) tb)
    /\ snd (run_call cfg ctx ID sg args ret tb) = snd (check_seq cfg ctx ID (sig_positions sg) (args ++ [ret]) tb).
  Proof.
    intro Hl. unfold run_call, sig_positions. rewrite check_seq_snoc by assumption.
    destruct (check_seq cfg ctx ID (ms_params sg) args tb) as [[u|e] tb1]; [|auto].
    destruct (amatch cfg ctx (ms_ret sg) ret tb1) as [[[]|e] tb2]; auto.
  Qed.

  Definition plain_call (sg : msig) (args : list value) (ret : value) : outcome unit :=
    fst (run_call cfg ctx ID sg args ret []).

  Definition well_formed_call (sg : msig) (args : list value) : Prop :=
    List.length (ms_params sg) = List.length args /\ forallb tv_vocab (sig_positions sg) = true.

  Lemma wf_len sg args ret : well_formed_call sg args -> List.length (sig_positions sg) = List.length (args ++ [ret]).
  Proof. intros [Hl _]. unfold sig_positions. rewrite !app_length. simpl. lia. Qed.

  Theorem plain_call_accepted_iff sg args ret : well_formed_call sg args ->
    plain_call sg args ret = Ok tt <->
    (STRUCT (sig_positions sg) (args ++ [ret]) /\ exists tv', RUN (traces (sig_positions sg) (args ++ [ret])) [] = (Ok true, tv')).
  Proof.
    intros Hw. pose proof (wf_len sg args ret Hw) as Hl. destruct Hw as [Hl0 Hv].
    unfold plain_call. destruct (run_call_seq sg args ret [] Hl0) as [-> _]. split.
    - intro H. destruct (check_seq cfg ctx ID (sig_positions sg) (args ++ [ret]) []) as [[[]|e] tb'] eqn:E; [|discriminate].
      destruct (seq_acc _ _ _ _ Hl Hv E). eauto.
    - intros [Hs [tv' Hr]]. rewrite (seq_run _ _ [] Hl Hv Hs), Hr. reflexivity.
  Qed.

  Theorem plain_call_outcome sg args ret : well_formed_call sg args -> STRUCT (sig_positions sg) (args ++ [ret]) ->
    plain_call sg args ret = fst (LIFT (RUN (traces (sig_positions sg) (args ++ [ret])) [])).
  Proof.
    intros Hw Hs. pose proof (wf_len sg args ret Hw) as Hl. destruct Hw as [Hl0 Hv].
    unfold plain_call. destruct (run_call_seq sg args ret [] Hl0) as [-> _]. now rewrite (seq_run _ _ [] Hl Hv Hs).
  Qed.

  (* identical classes per TypeVar (constraints / bounds respected) are accepted *)
  Theorem same_class_ok sg args ret P : well_formed_call sg args ->
    STRUCT (sig_positions sg) (args ++ [ret]) -> homogeneous P (traces (sig_positions sg) (args ++ [ret])) ->
    plain_call sg args ret = Ok tt.
  Proof.
    intros Hw Hs Hh. apply plain_call_accepted_iff; [assumption|]. split; [assumption|].
    destruct (same_class_accepted hook P _ [] ltac:(intros i b Hb; discriminate) Hh) as [tv' [Hr _]]. eauto.
  Qed.

  (* two values of unrelated classes matched against one TypeVar: never accepted *)
  Theorem unrelated_rejected sg args ret p q : well_formed_call sg args ->
    In p (traces (sig_positions sg) (args ++ [ret])) -> In q (traces (sig_positions sg) (args ++ [ret])) ->
    same_tvar (tv_id (mp_tv p)) (mp_tv p) (traces (sig_positions sg) (args ++ [ret])) -> mp_tv q = mp_tv p ->
    related (class_of (mp_val p)) (class_of (mp_val q)) = false ->
    plain_call sg args ret <> Ok tt.
  Proof.
    intros Hw Hp Hq Hsame Hpq Hun Hacc.
    apply plain_call_accepted_iff in Hacc as [_ [tv' Hr]]; [|assumption].
    pose proof (accepted_pairwise_related hook _ _ _ [] tv' (cls_env_nil) Hsame Hr) as Hpr.
    assert (Hin : forall r, In r (traces (sig_positions sg) (args ++ [ret])) -> mp_tv r = mp_tv p ->
                  In (class_of (mp_val r)) (map (fun p0 => class_of (mp_val p0)) (mine (tv_id (mp_tv p)) (traces (sig_positions sg) (args ++ [ret]))))).
    { intros r Hr' Ht. apply in_map_iff. exists r. split; [reflexivity|]. apply filter_In. split; [assumption|].
      rewrite Ht. apply Nat.eqb_refl. }
    rewrite (pairwise_related_in _ Hpr _ _ (Hin p Hp eq_refl) (Hin q Hq Hpq)) in Hun. discriminate.
  Qed.

  (* ... and where nothing else is wrong the rejection is PedanticTypeVarMismatchException *)
  Theorem rejection_is_mismatch sg args ret : mismatch_handled cfg = true -> well_formed_call sg args ->
    STRUCT (sig_positions sg) (args ++ [ret]) ->
    (forall p, In p (traces (sig_positions sg) (args ++ [ret])) -> mp_union p = false /\ tv_admits (mp_tv p) (mp_val p) = true) ->
    plain_call sg args ret <> Ok tt ->
    exists e, plain_call sg args ret = Raise e /\ derives e PTypeVarMismatchC = true.
  Proof.
    intros Hm Hw Hs Hall Hrej. rewrite (plain_call_outcome sg args ret Hw Hs) in *.
    destruct (rejected_is_mismatch hook _ [] cls_env_nil Hall) as [[tv' Hr]|[tv' Hr]]; rewrite Hr in *; simpl in *.
    - now elim Hrej.
    - unfold mismatch_handled in Hm. destruct (handle (handlers cfg) PTypeVarMismatchC) as [b|e]; [discriminate|]. eauto.
  Qed.

  (* constraints and bounds hold for every value of an accepted call *)
  Theorem accepted_admitted sg args ret : well_formed_call sg args -> plain_call sg args ret = Ok tt ->
    forall p, In p (traces (sig_positions sg) (args ++ [ret])) -> tv_admits (mp_tv p) (mp_val p) = true.
  Proof.
    intros Hw Hacc. apply plain_call_accepted_iff in Hacc as [_ [tv' Hr]]; [|assumption].
    exact (accepted_admits hook _ _ _ Hr).
  Qed.
End PlainCall.
