(* C16 core: what one with statement over the *regenerated* wrapper programs
   (Gen/CtxShape.v) does, for every body, every world, every exception class, sync and async.
   The proofs run the interpreter of Model/SafeCtx.v on the regenerated programs with symbolic
   class tests and object identities; a changed program makes them fail.                   *)
From Coq Require Import List Arith Bool Lia.
From PV Require Import Base.Exn Model.Generator Model.Contextlib Model.SafeCtx Model.CtxEval Spec.CtxSpec Gen.CtxShape.
Import ListNotations.

Definition prog_of (var : variant) : block := d_prog (deco_for var).

(* the exception object a generator's own `raise c()` hands to whoever resumed it: the object
   itself, or - PEP 479 - a new RuntimeError chained to it *)
Definition delivered (var : variant) (c : exn) (o : origin) (e : exc) : Prop :=
  if converts var c
  then ecls e = RuntimeErrorC /\ eorigin e = OPep479 /\
       exists i, ecause e = Some (Exc c i o None) /\ i < eid e
  else exists i, e = Exc c i o None.

(* an exception that leaves a block exists, i.e. was allocated before *)
Definition wf_res (o : wres) (n : nat) : Prop :=
  match o with WRaise e => eid e < n | _ => True end.

Ltac ground_derives := repeat match goal with
  | |- context[derives ?a ?b] =>
      let v := eval vm_compute in (derives a b) in
      match v with true => idtac | false => idtac end; change (derives a b) with v
  end.
Ltac norm := cbv -[derives same StopIterationC StopAsyncIterationC RuntimeErrorC GeneratorExitC].
Ltac decide_same := repeat match goal with
  | |- context[same ?a ?b] =>
      first [ replace (same a b) with true by (symmetry; apply Nat.eqb_eq; cbn [eid]; lia)
            | replace (same a b) with false by (symmetry; apply Nat.eqb_neq; cbn [eid]; lia) ]
  end.
Ltac use_hyps := repeat match goal with
  | H : derives ?a ?b = _ |- context[derives ?a ?b] => rewrite H
  | H : ?f ?x ?w = (_, _) |- context[?f ?x ?w] => rewrite H
  end.
Ltac split_derives := match goal with
  | |- context[if derives ?a ?b then _ else _] => let E := fresh "E" in destruct (derives a b) eqn:E
  end.
Ltac simp := repeat (progress (norm; ground_derives; decide_same; use_hyps)).
Ltac run := simp; repeat (split_derives; simp).

Ltac finish_delivered :=
  unfold delivered; norm; use_hyps; norm;
  first [ eexists; reflexivity
        | split; [reflexivity | split; [reflexivity | eexists; split; [reflexivity | cbn [eid]; lia]]] ].

Lemma char_setup_raise : forall var id a x cl c body j n,
  exists e n', with_use var (prog_of var) (mkUse id a (SetupRaise c) x cl) body (mkW j n)
               = (WRaise e, mkW (EvGen id 0 (Some a) :: j) n')
            /\ n <= eid e < n' /\ delivered var c (OGen id 0) e.
Proof.
  intros. destruct var; run;
    (do 2 eexists; split; [reflexivity | split; [cbn [eid]; lia | finish_delivered]]).
Qed.

Lemma char_setup_return : forall var id a x cl body j n,
  exists e n', with_use var (prog_of var) (mkUse id a SetupReturn x cl) body (mkW j n)
               = (WRaise e, mkW (EvGen id 0 (Some a) :: j) n')
            /\ n <= eid e < n' /\ ecls e = RuntimeErrorC /\ eorigin e = OPep479
            /\ exists i, ecause e = Some (Exc (stop_class var) i OProto None).
Proof.
  intros. destruct var; run;
    (do 2 eexists; split; [reflexivity | split; [cbn [eid]; lia | split; [reflexivity | split; [reflexivity | eexists; reflexivity]]]]).
Qed.

(* setup succeeded: the body gets the yielded object; afterwards the cleanup segment runs once *)
Lemma char_ok : forall var id a x cl body j n o j2 n2,
  body x (mkW (EvGen id 0 (Some a) :: j) n) = (o, mkW j2 n2) ->
  wf_res o n2 ->
  match cl with
  | CleanRaise c =>
      exists e n', with_use var (prog_of var) (mkUse id a SetupOk x cl) body (mkW j n)
                   = (WRaise e, mkW (EvGen id 1 (Some a) :: j2) n')
                /\ n2 <= eid e < n' /\ delivered var c (OGen id 1) e
  | _ =>
      exists n', with_use var (prog_of var) (mkUse id a SetupOk x cl) body (mkW j n)
                 = (o, mkW (EvGen id 1 (Some a) :: j2) n')
              /\ n2 <= n'
  end.
Proof.
  intros var id a x cl body j n o j2 n2 Hb Hwf.
  destruct cl as [|c|y]; destruct var; destruct o as [| |[bc bi bo bca]]; cbn [wf_res eid] in Hwf; run;
    first [ eexists; split; [reflexivity | lia]
          | do 2 eexists; split; [reflexivity | split; [cbn [eid]; lia | finish_delivered]] ].
Qed.

(* ---- the same three lemmas in one statement over arbitrary uses and worlds ------------- *)

Definition body_wf (body : body_t) : Prop :=
  forall x w o w', body x w = (o, w') -> wf_res o (nid w').

Definition P (var : variant) := prog_of var.

Theorem with_use_cases : forall var u body w,
  body_wf body ->
  let w1 := emit (ev_setup u) w in
  let r := with_use var (P var) u body w in
  match u_setup u with
  | SetupRaise c =>
      jrev (snd r) = jrev w1 /\
      exists e, fst r = WRaise e /\ nid w <= eid e < nid (snd r) /\ delivered var c (OGen (u_id u) 0) e
  | SetupReturn =>
      jrev (snd r) = jrev w1 /\
      exists e, fst r = WRaise e /\ nid w <= eid e < nid (snd r) /\ ecls e = RuntimeErrorC /\ eorigin e = OPep479
                /\ exists i, ecause e = Some (Exc (stop_class var) i OProto None)
  | SetupOk =>
      let ow := body (u_val u) w1 in
      jrev (snd r) = ev_cleanup u :: jrev (snd ow) /\ nid (snd ow) <= nid (snd r) /\
      match u_cleanup u with
      | CleanRaise c =>
          exists e, fst r = WRaise e /\ nid (snd ow) <= eid e < nid (snd r) /\ delivered var c (OGen (u_id u) 1) e
      | _ => fst r = fst ow
      end
  end.
Proof.
  intros var [id a s x cl] body [j n] Hwf. cbv zeta. unfold ev_setup, ev_cleanup, emit.
  cbn [u_setup u_cleanup u_val u_id u_args jrev nid].
  unfold P. destruct s as [|c|].
  - destruct (body x (mkW (EvGen id 0 (Some a) :: j) n)) as [o [j2 n2]] eqn:Hb.
    pose proof (Hwf _ _ _ _ Hb) as Ho. cbn [nid] in Ho.
    pose proof (char_ok var id a x cl body j n o j2 n2 Hb Ho) as H.
    cbn [fst snd jrev nid]. destruct cl as [|c|y].
    + destruct H as [n' [H1 H2]]. rewrite H1. cbn. auto.
    + destruct H as [e [n' [H1 [H2 H3]]]]. rewrite H1. cbn. repeat split; try lia. exists e. repeat split; auto; lia.
    + destruct H as [n' [H1 H2]]. rewrite H1. cbn. auto.
  - destruct (char_setup_raise var id a x cl c body j n) as [e [n' [H1 [H2 H3]]]].
    rewrite H1. cbn. split; [reflexivity|]. exists e. auto.
  - destruct (char_setup_return var id a x cl body j n) as [e [n' [H1 [H2 [H3 [H4 H5]]]]]].
    rewrite H1. cbn. split; [reflexivity|]. exists e. auto.
Qed.
