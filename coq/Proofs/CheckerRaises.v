(* Every exception the model of _is_instance raises derives from Exception - for EVERY annotation
   (supported or not, TypeVars included), value, TypeVar table and hook with the same property.
   With C08's containment theorem: the modelled assert_value_matches_type returns or raises a
   PedanticException on its whole domain.                                                      *)
From Coq Require Import List Arith Bool ZArith Lia.
From PV Require Import Base.Exn Base.Values Base.Ann Model.CheckerCfg Model.Checker Spec.Conforms Proofs.CheckerGood
  Proofs.CheckerTop.
Import ListNotations.

Definition ok_out {A} (r : outcome A) : Prop := match r with Raise e => is_exception e = true | Ok _ => True end.
Definition res_ok (r : res) : Prop := ok_out (fst r).
Definition exc_only (f : ann -> value -> tvenv -> res) : Prop := forall a v tv, res_ok (f a v tv).

Ltac triv := first [exact I | reflexivity | assumption].
Ltac res_step :=
  match goal with
  | |- True => exact I
  | |- ?x = ?x => reflexivity
  | |- is_exception _ = true => reflexivity
  | |- res_ok (Ok _, _) => exact I
  | |- res_ok (Raise _, _) => reflexivity
  | |- ok_out (Ok _) => exact I
  | |- ok_out (Raise _) => reflexivity
  | H : res_ok ?x |- res_ok ?x => exact H
  | |- res_ok (if ?b then _ else _) => destruct b eqn:?
  | |- ok_out (if ?b then _ else _) => destruct b eqn:?
  | |- res_ok (match ?x with _ => _ end) => destruct x eqn:?
  | |- ok_out (match ?x with _ => _ end) => destruct x eqn:?
  | |- res_ok (let (_, _) := ?x in _) => destruct x eqn:?
  | |- res_ok (_, _) => unfold res_ok; cbn [fst]
  end.

Section Raises.
  Variable cfg : checker_cfg.
  Variable ctx : nat -> option cls.

  Lemma q_all_ok {A} (f : A -> tvenv -> res) l : (forall x tv, In x l -> res_ok (f x tv)) -> forall tv, res_ok (q_all f l tv).
  Proof.
    induction l as [|x l IH]; intros H tv; cbn [q_all]; [exact I|].
    pose proof (H x tv (or_introl eq_refl)) as Hx. destruct (f x tv) as [[[]|e] tv']; try exact Hx; try exact I.
    apply IH. intros y tv0 Hy. apply H. now right.
  Qed.

  Lemma q_any_ok {A} (f : A -> tvenv -> res) l : (forall x tv, In x l -> res_ok (f x tv)) -> forall tv, res_ok (q_any f l tv).
  Proof.
    induction l as [|x l IH]; intros H tv; cbn [q_any]; [exact I|].
    pose proof (H x tv (or_introl eq_refl)) as Hx. destruct (f x tv) as [[[]|e] tv']; try exact Hx; try exact I.
    apply IH. intros y tv0 Hy. apply H. now right.
  Qed.

  Lemma q_run_ok {A} (f : A -> tvenv -> res) q l : (forall x tv, In x l -> res_ok (f x tv)) -> forall tv, res_ok (q_run f q l tv).
  Proof. destruct q; [apply q_all_ok | apply q_any_ok]. Qed.

  Lemma is_subtype_ok sub sup : ok_out (is_subtype_cls sub sup).
  Proof. destruct sup; cbn; repeat res_step. Qed.

  Lemma zip_subtype_ok : forall ps l, ok_out (zip_subtype ps l).
  Proof.
    induction ps as [|p ps IH]; intros [|a l]; cbn; try exact I.
    pose proof (is_subtype_ok (sub_cls_of (fst p)) a) as H. destruct (is_subtype_cls (sub_cls_of (fst p)) a) as [[]|e]; try exact H; try exact I.
    apply IH.
  Qed.

  Lemma callable_fun_ok ps r s : ok_out (callable_fun ps r s).
  Proof.
    unfold callable_fun.
    assert (H : ok_out match ps with
                       | None => Ok true
                       | Some l => if negb (Nat.eqb (List.length l) (List.length (filter (fun p => negb (snd p)) (fs_params s))))
                                   then Ok false else zip_subtype (fs_params s) l
                       end).
    { destruct ps as [l|]; [|exact I]. destruct (negb _); [exact I | apply zip_subtype_ok]. }
    destruct (match ps with None => _ | Some l => _ end) as [[]|e]; try exact H; try exact I.
    destruct (fs_coroutine s); [|apply is_subtype_ok].
    destruct r; try exact I. destruct sp; try exact I. destruct o; try exact I.
    - destruct args as [|x [|? ?]]; try exact I. apply is_subtype_ok.
    - destruct args as [|? [|? [|x [|? ?]]]]; try exact I. apply is_subtype_ok.
  Qed.

  Lemma callable_check_ok ps r v : ok_out (callable_check cfg ps r v).
  Proof.
    unfold callable_check. destruct v; repeat res_step; try apply callable_fun_ok.
  Qed.

  Lemma conv_ok_ok : forall a, ok_out (conv_ok cfg a).
  Proof.
    induction a as [ | c | | sp args IHargs | vals | s IHs | n | n | sp o args IHargs | sp e IHe | sp | o | ps r IHps IHr | t | k]
      using ann_ind'; try exact I.
    - cbn [conv_ok]. repeat res_step.
    - assert (Hgo : ok_out ((fix go (l : list ann) : outcome unit :=
                         match l with [] => Ok tt | x :: l' => match conv_ok cfg x with Ok _ => go l' | Raise e => Raise e end end) args)).
      { induction args as [|x args IHa]; [exact I|]. inversion IHargs as [|? ? Hx Hrest]; subst.
        destruct (conv_ok cfg x); [apply IHa; assumption | exact Hx]. }
      assert (Hgt : ok_out ((fix go_type (l : list ann) : outcome unit :=
                         match l with
                         | [] => Ok tt
                         | ACls _ :: l' => go_type l'
                         | x :: l' => match conv_ok cfg x with Ok _ => go_type l' | Raise e => Raise e end
                         end) args)).
      { clear Hgo. induction args as [|x args IHa]; [exact I|]. inversion IHargs as [|? ? Hx Hrest]; subst.
        destruct x; cbn -[conv_ok]; try (apply IHa; assumption);
          match goal with |- context [conv_ok cfg ?y] => destruct (conv_ok cfg y); [apply IHa; assumption | exact Hx] end. }
      destruct sp; try exact I; cbn [conv_ok].
      + destruct (tname_eqb o TType && conv_type_keeps_classes cfg).
        * destruct (_ args) eqn:E in Hgt |- *; rewrite ?E; repeat res_step; try exact Hgt.
        * destruct (_ args) eqn:E in Hgo |- *; rewrite ?E; repeat res_step; try exact Hgo.
      + destruct (_ args) eqn:E in Hgo |- *; rewrite ?E; repeat res_step; try exact Hgo.
    - destruct sp; try exact I; cbn [conv_ok]; destruct (conv_ok cfg e); repeat res_step; try exact IHe.
    - destruct sp; try exact I; cbn [conv_ok]; repeat res_step.
  Qed.

  Section WithHook.
    Variable hook : ann -> value -> tvenv -> res.
    Hypothesis Hhook : exc_only hook.

    Lemma typevar_ok t v tv : res_ok (typevar_check hook t v tv).
    Proof.
      unfold typevar_check. repeat res_step.
      all: try match goal with |- res_ok (match hook ?a ?v ?tv with _ => _ end) =>
             pose proof (Hhook a v tv) as Hh; destruct (hook a v tv) as [[[]|e] tv']; cbn in *; repeat res_step; try exact Hh end.
      all: try match goal with H : hook ?a ?v ?tv = (Raise ?e, _) |- _ =>
             pose proof (Hhook a v tv) as Hh; rewrite H in Hh; exact Hh end.
    Qed.

    Lemma union_bounded_ok : forall l tv0 v tv, match fst (union_bounded cfg hook l tv0 v tv) with Some r => res_ok r | None => True end.
    Proof.
      induction l as [|m l IH]; intros tv0 v tv; cbn [union_bounded]; [exact I|].
      destruct m; try apply IH.
      destruct (tv_lookup tv0 (tv_id t)); [|apply IH].
      pose proof (typevar_ok t v tv) as Ht. destruct (typevar_check hook t v tv) as [[[]|e] tv'].
      - exact I.
      - destruct (un_bound_uses_result cfg); [apply IH | exact I].
      - destruct (is_pedantic e); [apply IH | exact Ht].
    Qed.

    Lemma union_tail_ok l tv0 v tv : res_ok (union_tail cfg hook l tv0 v tv).
    Proof.
      unfold union_tail. pose proof (union_bounded_ok l tv0 v tv) as Hb.
      destruct (union_bounded cfg hook l tv0 v tv) as [[r|] tv']; [exact Hb|].
      destruct (union_unbounded l tv0) as [|t [|? ?]]; try exact I. apply typevar_ok.
    Qed.

    Section WithF.
      Variable f : ann -> value -> tvenv -> res.

      Lemma members_ok v : forall l, (forall m tv, In m l -> res_ok (f m v tv)) -> forall tv acc, res_ok (members_f cfg f v l tv acc).
      Proof.
        induction l as [|m l IH]; intros H tv acc; cbn [members_f]; [exact I|].
        destruct (is_typevar m); [apply IH; intros; apply H; now right|].
        pose proof (H m tv (or_introl eq_refl)) as Hm. destruct (f m v tv) as [[b|e] tv']; [|exact Hm].
        apply IH. intros; apply H; now right.
      Qed.

      Lemma union_ok args v tv : (forall m tv, In m args -> res_ok (f m v tv)) -> res_ok (union_f cfg hook f args v tv).
      Proof.
        intro H. unfold union_f. pose proof (members_ok v args H tv (match un_quant cfg with QAny => false | QAll => true end)) as Hm.
        destruct (members_f cfg f v args tv _) as [[[]|e] tv']; try exact Hm; try exact I. apply union_tail_ok.
      Qed.

      Lemma zip_ok : forall l vs tv, (forall a0 v tv, In a0 l -> res_ok (f a0 v tv)) -> res_ok (zip_f cfg f l vs tv).
      Proof.
        induction l as [|a0 l IH]; intros vs tv H; cbn [zip_f]; [exact I|]. destruct vs as [|v0 vs]; [exact I|].
        pose proof (H a0 v0 tv (or_introl eq_refl)) as Ha.
        destruct (f a0 v0 tv) as [[[]|e] tv'], (tu_zip_quant cfg); try exact Ha; try exact I; apply IH; intros; apply H; now right.
      Qed.

      Lemma pair_ok ka va kv tv : (forall v tv, res_ok (f ka v tv)) -> (forall v tv, res_ok (f va v tv)) -> res_ok (pair_check cfg f ka va kv tv).
      Proof.
        intros Hk Hv. unfold pair_check. destruct (iv_conj cfg); try apply Hk; try apply Hv;
          (pose proof (Hk (fst kv) tv) as H1; destruct (f ka (fst kv) tv) as [[[]|e] tv']; try exact H1; try exact I; apply Hv).
      Qed.

      Lemma items_ok args kvs tv : (forall a0 v tv, In a0 args -> res_ok (f a0 v tv)) -> res_ok (items_f cfg f args kvs tv).
      Proof.
        intro H. unfold items_f. destruct args as [|ka [|va [|? ?]]]; try reflexivity.
        apply q_run_ok. intros kv tv0 _. apply pair_ok; intros; apply H; cbn; tauto.
      Qed.

      Lemma generic_ok o args v tv : (forall a0 v tv, In a0 args -> res_ok (f a0 v tv)) -> res_ok (generic_f cfg f o args v tv).
      Proof.
        intro H. unfold generic_f.
        destruct (negb (has_required cfg (AGeneric SpTyping o args))); [reflexivity|].
        destruct (negb (abc_instance o (class_of v))); [exact I|].
        destruct (origin_checker cfg o) as [[]|]; try reflexivity.
        - destruct (iter_values v); [|reflexivity].
          destruct (it_index cfg) as [|[|?]], args as [|a0 [|a1 ?]]; try reflexivity; apply q_run_ok; intros; apply H; cbn; tauto.
        - destruct (mp_via_items cfg); [|reflexivity]. destruct (items_of v); [|reflexivity]. now apply items_ok.
        - destruct (pairs_of v); [|reflexivity]. now apply items_ok.
        - destruct v; try reflexivity. destruct (_ && _); [exact I|]. now apply zip_ok.
        - destruct (ty_index cfg), args as [|a0 ?]; try reflexivity.
          destruct a0; try exact I; destruct v; try exact I; cbn [fst res_ok]; apply is_subtype_ok.
      Qed.

      Lemma tuple_var_ok e v tv : (forall v tv, res_ok (f e v tv)) -> res_ok (tuple_var_f cfg f e v tv).
      Proof.
        intro H. unfold tuple_var_f.
        destruct (negb (has_required cfg (ATupleVar SpTyping e))); [reflexivity|].
        destruct (negb (abc_instance TTuple (class_of v))); [exact I|].
        destruct (origin_checker cfg TTuple) as [[]|]; try reflexivity.
        - destruct (iter_values v), (it_index cfg); try reflexivity. apply q_run_ok. intros; apply H.
        - destruct v; try reflexivity. destruct (tu_ell_index cfg); [apply q_run_ok; intros; apply H|].
          destruct l; [exact I | reflexivity].
      Qed.
    End WithF.

    Theorem is_inst_exc_only : exc_only (is_inst cfg ctx hook).
    Proof.
      intro a.
      induction a as [ | c | | sp args IHargs | vals | s IHs | n | n | sp o args IHargs | sp e IHe | sp | o | ps r IHps IHr | t | k]
        using ann_ind'; intros v tv; cbn [is_inst];
        match goal with |- res_ok (if ?b then _ else _) => destruct b; [reflexivity|] end.
      - reflexivity.
      - unfold inst_cls. repeat res_step.
      - repeat res_step.
      - assert (Hu : forall tv0, res_ok (union_f cfg hook (fun m => is_inst cfg ctx hook m) args v tv0)).
        { intro tv0. apply union_ok. intros m tv1 Hm. rewrite Forall_forall in IHargs. now apply IHargs. }
        destruct sp; [|apply Hu]. destruct (special_checker cfg _) as [[]|]; try reflexivity; try exact I. apply Hu.
      - repeat res_step.
      - destruct s; try (destruct (newtype_recurses cfg); [apply IHs | reflexivity]). exact I.
      - destruct (ctx n); [|reflexivity]. unfold inst_cls. repeat res_step.
      - reflexivity.
      - assert (Hg : forall tv0, res_ok (generic_f cfg (fun x => is_inst cfg ctx hook x) o args v tv0)).
        { intro tv0. apply generic_ok. intros a0 v0 tv1 Ha0. rewrite Forall_forall in IHargs. now apply IHargs. }
        destruct sp; try apply Hg;
          match goal with |- context [conv_ok cfg ?x] => pose proof (conv_ok_ok x) as Hc; destruct (conv_ok cfg x); [apply Hg | exact Hc] end.
      - assert (Ht : forall tv0, res_ok (tuple_var_f cfg (fun x => is_inst cfg ctx hook x) e v tv0)).
        { intro tv0. apply tuple_var_ok. intros; apply IHe. }
        destruct sp; try apply Ht;
          match goal with |- context [conv_ok cfg ?x] => pose proof (conv_ok_ok x) as Hc; destruct (conv_ok cfg x); [apply Ht | exact Hc] end.
      - assert (Hg : forall tv0, res_ok (generic_f cfg (fun x => is_inst cfg ctx hook x) TTuple [] v tv0)).
        { intro tv0. apply generic_ok. intros a0 v0 tv1 []. }
        destruct sp; try apply Hg;
          match goal with |- context [conv_ok cfg ?x] => pose proof (conv_ok_ok x) as Hc; destruct (conv_ok cfg x); [apply Hg | exact Hc] end.
      - destruct (special_checker cfg o) as [[]|]; try reflexivity; try exact I.
        apply generic_ok. intros a0 v0 tv1 [].
      - destruct (special_checker cfg TCallable) as [[]|]; try reflexivity; try exact I.
        cbn [fst res_ok]. apply callable_check_ok.
      - apply typevar_ok.
      - reflexivity.
    Qed.
  End WithHook.

  Lemma no_hook_exc_only : exc_only no_hook.
  Proof. intros a v tv. reflexivity. Qed.

  (* the model of assert_value_matches_type (TypeVars bound to annotations included): returns, or raises
     something derived from PedanticException - for EVERY annotation, supported or not, and EVERY value *)
  Theorem assert_matches1_contained : good_facts cfg -> forall a v tv,
    match fst (assert_matches1 cfg ctx a v tv) with Ok _ => True | Raise r => is_pedantic r = true end.
  Proof.
    intros good a v tv. unfold assert_matches1, assert_matches.
    apply (check_contains cfg good ctx).
    intros a0 v0 tv0 e tv' H.
    pose proof (is_inst_exc_only (is_inst0 cfg ctx) (is_inst_exc_only no_hook no_hook_exc_only) a0 v0 tv0) as Hr.
    unfold res_ok in Hr. fold (is_inst1 cfg ctx) in Hr. unfold is_inst1 in *. rewrite H in Hr. exact Hr.
  Qed.
End Raises.
