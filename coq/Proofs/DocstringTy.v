(* C19 - lemmas about the objects of Model/DocstringTyping.v: induction principle for the nested
   type `ty`, `==` (ty_eqb) is an equivalence relation, class names are invariant under `==`.      *)
From Coq Require Import List Bool Arith String Lia.
From PV Require Import Base.Exn Model.DocstringTyping.
Import ListNotations.
Open Scope string_scope.
Open Scope list_scope.

(* ---- induction principle ------------------------------------------------------------------- *)
Section TyInd.
  Variable P : ty -> Prop.
  Hypothesis HNone : P TNone.
  Hypothesis HEll : P TEllipsis.
  Hypothesis HAny : P TAny.
  Hypothesis HCls : forall n, P (TCls n).
  Hypothesis HBare : forall n, P (TBare n).
  Hypothesis HUnion : forall l, Forall P l -> P (TUnion l).
  Hypothesis HGen : forall g l, Forall P l -> P (TGen g l).
  Hypothesis HTup : forall l, Forall P l -> P (TTup l).
  Hypothesis HLst : forall l, Forall P l -> P (TLst l).
  Hypothesis HPipe : forall l, Forall P l -> P (TPipe l).

  Fixpoint ty_ind' (t : ty) : P t :=
    let go := fix go (l : list ty) : Forall P l :=
      match l with
      | [] => Forall_nil P
      | x :: r => Forall_cons x (ty_ind' x) (go r)
      end in
    match t with
    | TNone => HNone
    | TEllipsis => HEll
    | TAny => HAny
    | TCls n => HCls n
    | TBare n => HBare n
    | TUnion l => HUnion l (go l)
    | TGen g l => HGen g l (go l)
    | TTup l => HTup l (go l)
    | TLst l => HLst l (go l)
    | TPipe l => HPipe l (go l)
    end.
End TyInd.

(* ---- generic list facts ---------------------------------------------------------------------- *)
Lemma existsb_ext_in : forall {A} (f g : A -> bool) l,
  (forall x, In x l -> f x = g x) -> existsb f l = existsb g l.
Proof.
  induction l as [|a l IH]; intros H; [reflexivity|]. cbn.
  rewrite (H a (or_introl eq_refl)), IH; [reflexivity|]. intros; apply H; now right.
Qed.

Lemma forallb_ext_in : forall {A} (f g : A -> bool) l,
  (forall x, In x l -> f x = g x) -> forallb f l = forallb g l.
Proof.
  induction l as [|a l IH]; intros H; [reflexivity|]. cbn.
  rewrite (H a (or_introl eq_refl)), IH; [reflexivity|]. intros; apply H; now right.
Qed.

Lemma mem_In : forall n l, mem n l = true <-> In n l.
Proof.
  unfold mem. intros n l. rewrite existsb_exists. split.
  - intros [x [Hx E]]. apply String.eqb_eq in E. now subst.
  - intros H. exists n. split; [assumption|apply String.eqb_refl].
Qed.

Lemma mem_false_In : forall n l, mem n l = false <-> ~ In n l.
Proof.
  intros. rewrite <- mem_In. destruct (mem n l); intuition congruence.
Qed.

Section ListEq.
  Variable A : Type.
  Variable eq : A -> A -> bool.

  Lemma list_eqb_refl : forall l, (forall x, In x l -> eq x x = true) -> list_eqb eq l l = true.
  Proof.
    induction l as [|a l IH]; intros H; [reflexivity|]. cbn.
    rewrite (H a (or_introl eq_refl)), IH; [reflexivity|]. intros; apply H; now right.
  Qed.

  Lemma list_eqb_sym : forall l1 l2, (forall x, In x l1 -> forall y, eq x y = eq y x) ->
    list_eqb eq l1 l2 = list_eqb eq l2 l1.
  Proof.
    induction l1 as [|a l1 IH]; intros [|b l2] H; try reflexivity. cbn.
    rewrite (H a (or_introl eq_refl) b), IH; [reflexivity|]. intros; apply H; now right.
  Qed.

  Lemma list_eqb_trans : forall l1 l2 l3,
    (forall x, In x l1 -> forall y z, eq x y = true -> eq y z = true -> eq x z = true) ->
    list_eqb eq l1 l2 = true -> list_eqb eq l2 l3 = true -> list_eqb eq l1 l3 = true.
  Proof.
    induction l1 as [|a l1 IH]; intros [|b l2] [|c l3] H H1 H2; cbn in *; try congruence.
    apply andb_true_iff in H1 as [H1 H1']. apply andb_true_iff in H2 as [H2 H2'].
    rewrite (H a (or_introl eq_refl) b c H1 H2). cbn.
    eapply IH; [|eassumption|eassumption]. intros x Hx y z; apply H; now right.
  Qed.

  Lemma list_eqb_length : forall l1 l2, list_eqb eq l1 l2 = true -> List.length l1 = List.length l2.
  Proof.
    induction l1 as [|a l1 IH]; intros [|b l2] H; cbn in *; try congruence.
    apply andb_true_iff in H as [_ H]. f_equal. now apply IH.
  Qed.

  Lemma sub_l_spec : forall l1 l2,
    sub_l eq l1 l2 = true <-> (forall x, In x l1 -> exists y, In y l2 /\ eq x y = true).
  Proof.
    intros. unfold sub_l. rewrite forallb_forall. split; intros H x Hx.
    - apply H in Hx. now apply existsb_exists in Hx.
    - apply existsb_exists. now apply H.
  Qed.

  Lemma sub_r_spec : forall l1 l2,
    sub_r eq l1 l2 = true <-> (forall y, In y l2 -> exists x, In x l1 /\ eq x y = true).
  Proof.
    intros. unfold sub_r. rewrite forallb_forall. split; intros H x Hx.
    - apply H in Hx. now apply existsb_exists in Hx.
    - apply existsb_exists. now apply H.
  Qed.
End ListEq.
Arguments list_eqb_refl {A} eq l.
Arguments list_eqb_sym {A} eq l1 l2.
Arguments list_eqb_trans {A} eq l1 l2 l3.
Arguments list_eqb_length {A} eq l1 l2.
Arguments sub_l_spec {A} eq l1 l2.
Arguments sub_r_spec {A} eq l1 l2.

Lemma gname_eqb_refl : forall g, gname_eqb g g = true.
Proof. destruct g; cbn; apply String.eqb_refl. Qed.

Lemma gname_eqb_eq : forall g h, gname_eqb g h = true -> g = h.
Proof. destruct g, h; cbn; intros H; try discriminate; apply String.eqb_eq in H; now subst. Qed.

Lemma gname_eqb_sym : forall g h, gname_eqb g h = gname_eqb h g.
Proof. destruct g, h; cbn; try reflexivity; apply String.eqb_sym. Qed.

(* the four union combinations unfold to the same set comparison *)
Definition set_eqb (l1 l2 : list ty) : bool := sub_l ty_eqb l1 l2 && sub_r ty_eqb l1 l2.

(* ---- == is reflexive ---------------------------------------------------------------------------- *)
Lemma ty_eqb_refl : forall t, ty_eqb t t = true.
Proof.
  induction t using ty_ind'; cbn; try reflexivity; try apply String.eqb_refl.
  - (* TUnion *) rewrite Forall_forall in H. apply andb_true_iff. split.
    + apply sub_l_spec. intros x Hx. exists x. auto.
    + apply sub_r_spec. intros x Hx. exists x. auto.
  - rewrite gname_eqb_refl. cbn. apply list_eqb_refl. now apply Forall_forall.
  - apply list_eqb_refl. now apply Forall_forall.
  - apply list_eqb_refl. now apply Forall_forall.
  - rewrite Forall_forall in H. apply andb_true_iff. split.
    + apply sub_l_spec. intros x Hx. exists x. auto.
    + apply sub_r_spec. intros x Hx. exists x. auto.
Qed.

(* ---- == is symmetric ----------------------------------------------------------------------------- *)
Lemma set_sym_aux : forall l1 l2, (forall x, In x l1 -> forall y, ty_eqb x y = ty_eqb y x) ->
  sub_l ty_eqb l1 l2 && sub_r ty_eqb l1 l2 = sub_l ty_eqb l2 l1 && sub_r ty_eqb l2 l1.
Proof.
  intros l1 l2 H. rewrite andb_comm. f_equal.
  - unfold sub_r, sub_l. apply forallb_ext_in. intros y Hy. apply existsb_ext_in. intros x Hx. now apply H.
  - unfold sub_r, sub_l. apply forallb_ext_in. intros x Hx. apply existsb_ext_in. intros z Hz. now apply H.
Qed.

Lemma ty_eqb_sym : forall a b, ty_eqb a b = ty_eqb b a.
Proof.
  induction a using ty_ind'; intros b; destruct b; cbn; try reflexivity; try apply String.eqb_sym;
    try (rewrite Forall_forall in H).
  - now apply set_sym_aux.
  - now apply set_sym_aux.
  - rewrite gname_eqb_sym. f_equal. now apply list_eqb_sym.
  - now apply list_eqb_sym.
  - now apply list_eqb_sym.
  - now apply set_sym_aux.
  - now apply set_sym_aux.
Qed.

(* ---- == is transitive ------------------------------------------------------------------------------ *)
Lemma set_trans_aux : forall l1 l2 l3,
  (forall x, In x l1 -> forall y z, ty_eqb x y = true -> ty_eqb y z = true -> ty_eqb x z = true) ->
  sub_l ty_eqb l1 l2 && sub_r ty_eqb l1 l2 = true ->
  sub_l ty_eqb l2 l3 && sub_r ty_eqb l2 l3 = true ->
  sub_l ty_eqb l1 l3 && sub_r ty_eqb l1 l3 = true.
Proof.
  intros l1 l2 l3 H H1 H2.
  apply andb_true_iff in H1 as [A1 B1]. apply andb_true_iff in H2 as [A2 B2].
  rewrite sub_l_spec in A1, A2. rewrite sub_r_spec in B1, B2.
  apply andb_true_iff. split.
  - apply sub_l_spec. intros x Hx. destruct (A1 x Hx) as [y [Hy E1]]. destruct (A2 y Hy) as [z [Hz E2]].
    exists z. split; [assumption|]. eapply H; eauto.
  - apply sub_r_spec. intros z Hz. destruct (B2 z Hz) as [y [Hy E2]]. destruct (B1 y Hy) as [x [Hx E1]].
    exists x. split; [assumption|]. eapply H; eauto.
Qed.

Lemma ty_eqb_trans : forall a b c, ty_eqb a b = true -> ty_eqb b c = true -> ty_eqb a c = true.
Proof.
  induction a using ty_ind'; intros b c H1 H2; destruct b; cbn in H1; try discriminate;
    destruct c; cbn in H2; try discriminate; cbn; try reflexivity;
    try (apply String.eqb_eq in H1; apply String.eqb_eq in H2; subst; apply String.eqb_refl);
    try (rewrite Forall_forall in H);
    try (eapply set_trans_aux; eassumption);
    try (eapply list_eqb_trans; eassumption).
  apply andb_true_iff in H1 as [G1 L1]. apply andb_true_iff in H2 as [G2 L2].
  apply gname_eqb_eq in G1. apply gname_eqb_eq in G2. subst. rewrite gname_eqb_refl. cbn.
  eapply list_eqb_trans; eassumption.
Qed.

(* ---- class names are invariant under == ------------------------------------------------------------ *)
Lemma in_flat_map_names : forall n l, In n (flat_map cls_names l) <-> exists x, In x l /\ In n (cls_names x).
Proof. intros. apply in_flat_map. Qed.

Lemma list_eqb_names : forall n l1 l2,
  (forall x, In x l1 -> forall y, ty_eqb x y = true -> In n (cls_names x) -> In n (cls_names y)) ->
  list_eqb ty_eqb l1 l2 = true -> In n (flat_map cls_names l1) -> In n (flat_map cls_names l2).
Proof.
  induction l1 as [|a l1 IH]; intros [|b l2] H E Hn; cbn in *; try congruence; try contradiction.
  apply andb_true_iff in E as [E1 E2]. apply in_app_iff in Hn. apply in_app_iff. destruct Hn as [Hn|Hn].
  - left. eapply H; eauto.
  - right. eapply IH; eauto.
Qed.

Lemma set_names : forall n l1 l2,
  (forall x, In x l1 -> forall y, ty_eqb x y = true -> In n (cls_names x) -> In n (cls_names y)) ->
  sub_l ty_eqb l1 l2 && sub_r ty_eqb l1 l2 = true -> In n (flat_map cls_names l1) -> In n (flat_map cls_names l2).
Proof.
  intros n l1 l2 H E Hn. apply andb_true_iff in E as [E _]. rewrite sub_l_spec in E.
  apply in_flat_map_names in Hn as [x [Hx Hn]]. destruct (E x Hx) as [y [Hy Exy]].
  apply in_flat_map_names. exists y. split; [assumption|]. eapply H; eauto.
Qed.

Lemma ty_eqb_names_l : forall n a b, ty_eqb a b = true -> In n (cls_names a) -> In n (cls_names b).
Proof.
  intros n. induction a using ty_ind'; intros b E Hn; destruct b; cbn in E; try discriminate; cbn in Hn |- *;
    try contradiction; try (rewrite Forall_forall in H);
    try (eapply set_names; eassumption); try (eapply list_eqb_names; eassumption).
  - apply String.eqb_eq in E. now subst.
  - apply andb_true_iff in E as [_ E]. eapply list_eqb_names; eassumption.
Qed.

Lemma ty_eqb_names : forall n a b, ty_eqb a b = true -> (In n (cls_names a) <-> In n (cls_names b)).
Proof.
  intros n a b E. split; intros H.
  - eapply ty_eqb_names_l; eauto.
  - rewrite ty_eqb_sym in E. eapply ty_eqb_names_l; eauto.
Qed.
