(* C01, "a value that differs from a conforming one at a single, arbitrarily deep position in a way that breaks
   conformance is rejected": a non-conforming SUB-POSITION reachable through any number of container layers
   (elements of any element-wise generic, keys and values of mappings and items views, slots of fixed and variadic
   tuples, NewType wrappers) makes the whole value non-conforming.                                              *)
From Coq Require Import List Arith Bool ZArith Lia.
From PV Require Import Base.Exn Base.Values Base.Ann Spec.Conforms.
Import ListNotations.

Section DeepPos.
  Variable ctx : nat -> option cls.
  Notation conforms := (conforms ctx).

  (* (a, v) has the sub-position (a', y): y sits somewhere inside v and is checked there against a' *)
  Inductive reaches : ann -> value -> ann -> value -> Prop :=
  | r_here : forall a v, reaches a v a v
  | r_elem : forall sp o a0 v l x a' y, origin_kind o = KElems -> abc_instance o (class_of v) = true ->
      iter_values v = Some l -> In x l -> reaches a0 x a' y -> reaches (AGeneric sp o [a0]) v a' y
  | r_key : forall sp o ka va v kvs k w a' y, origin_kind o = KMapping -> abc_instance o (class_of v) = true ->
      items_of v = Some kvs -> In (k, w) kvs -> reaches ka k a' y -> reaches (AGeneric sp o [ka; va]) v a' y
  | r_val : forall sp o ka va v kvs k w a' y, origin_kind o = KMapping -> abc_instance o (class_of v) = true ->
      items_of v = Some kvs -> In (k, w) kvs -> reaches va w a' y -> reaches (AGeneric sp o [ka; va]) v a' y
  | r_item_key : forall sp o ka va v kvs k w a' y, origin_kind o = KItems ->
      pairs_of v = Some kvs -> In (k, w) kvs -> reaches ka k a' y -> reaches (AGeneric sp o [ka; va]) v a' y
  | r_item_val : forall sp o ka va v kvs k w a' y, origin_kind o = KItems ->
      pairs_of v = Some kvs -> In (k, w) kvs -> reaches va w a' y -> reaches (AGeneric sp o [ka; va]) v a' y
  | r_slot : forall sp args vs i ai xi a' y, List.length vs = List.length args ->
      nth_error args i = Some ai -> nth_error vs i = Some xi -> reaches ai xi a' y ->
      reaches (AGeneric sp TTuple args) (VTuple vs) a' y
  | r_tuplevar : forall sp e vs x a' y, In x vs -> reaches e x a' y -> reaches (ATupleVar sp e) (VTuple vs) a' y
  | r_newtype : forall s v a' y, reaches s v a' y -> reaches (ANewType s) v a' y.

  Lemma all3_mustnot_in (l : list verdict) : In MustNot l -> all3 l = MustNot.
  Proof.
    intro H. unfold all3. replace (existsb is_mustnot l) with true; [reflexivity|].
    symmetry. apply existsb_exists. exists MustNot. split; [assumption|reflexivity].
  Qed.

  Lemma and3_mustnot_l x : and3 MustNot x = MustNot.
  Proof. reflexivity. Qed.
  Lemma and3_mustnot_r x : and3 x MustNot = MustNot.
  Proof. destruct x; reflexivity. Qed.

  Lemma zip3_nth : forall (args : list ann) (vs : list value) i ai xi,
    nth_error args i = Some ai -> nth_error vs i = Some xi ->
    In (conforms ai xi)
       ((fix zip3 (l : list ann) (ws : list value) : list verdict :=
           match l, ws with a0 :: l', v0 :: ws' => conforms a0 v0 :: zip3 l' ws' | _, _ => [] end) args vs).
  Proof.
    induction args as [|a args IH]; intros vs i ai xi Ha Hx; destruct i; cbn in Ha; try discriminate.
    - destruct vs as [|v vs]; cbn in Hx; [discriminate|]. injection Ha as ->. injection Hx as ->. now left.
    - destruct vs as [|v vs]; cbn in Hx; [discriminate|]. right. exact (IH vs i ai xi Ha Hx).
  Qed.

  Theorem deep_position_breaks : forall a v a' y, reaches a v a' y -> conforms a' y = MustNot -> conforms a v = MustNot.
  Proof.
    induction 1 as [a v
                   | sp o a0 v l x a' y Hk Hc Hi Hin _ IH
                   | sp o ka va v kvs k w a' y Hk Hc Hi Hin _ IH
                   | sp o ka va v kvs k w a' y Hk Hc Hi Hin _ IH
                   | sp o ka va v kvs k w a' y Hk Hi Hin _ IH
                   | sp o ka va v kvs k w a' y Hk Hi Hin _ IH
                   | sp args vs i ai xi a' y Hl Ha Hx _ IH
                   | sp e vs x a' y Hin _ IH
                   | s v a' y _ IH]; intro Hbad.
    - exact Hbad.
    - cbn [Conforms.conforms]. rewrite Hk, Hc, Hi. apply all3_mustnot_in.
      rewrite <- (IH Hbad). now apply in_map.
    - cbn [Conforms.conforms]. rewrite Hk, Hc, Hi. apply all3_mustnot_in.
      apply in_map_iff. exists (k, w). split; [|assumption]. cbn [fst snd]. rewrite (IH Hbad). apply and3_mustnot_l.
    - cbn [Conforms.conforms]. rewrite Hk, Hc, Hi. apply all3_mustnot_in.
      apply in_map_iff. exists (k, w). split; [|assumption]. cbn [fst snd]. rewrite (IH Hbad). apply and3_mustnot_r.
    - cbn [Conforms.conforms]. rewrite Hk, Hi. apply all3_mustnot_in.
      apply in_map_iff. exists (k, w). split; [|assumption]. cbn [fst snd]. rewrite (IH Hbad). apply and3_mustnot_l.
    - cbn [Conforms.conforms]. rewrite Hk, Hi. apply all3_mustnot_in.
      apply in_map_iff. exists (k, w). split; [|assumption]. cbn [fst snd]. rewrite (IH Hbad). apply and3_mustnot_r.
    - destruct args as [|a0 args]; [destruct i; discriminate Ha|].
      cbn [Conforms.conforms origin_kind]. rewrite Hl, Nat.eqb_refl. apply all3_mustnot_in.
      rewrite <- (IH Hbad). exact (zip3_nth (a0 :: args) vs i ai xi Ha Hx).
    - cbn [Conforms.conforms]. apply all3_mustnot_in. rewrite <- (IH Hbad). now apply in_map.
    - cbn [Conforms.conforms]. exact (IH Hbad).
  Qed.
End DeepPos.
