(* C18 - lemmas about the wrapper terms regenerated into Gen/Wrappers.v, interpreted by
   Model/WrapperSem.v, against Spec/WrapperSpec.v.                                                   *)
From Coq Require Import List ZArith Bool String Lia.
From PV Require Import Base.Exn Model.WrapperSem Spec.WrapperSpec Gen.Wrappers Model.WrapperStack.
Import ListNotations.
Open Scope list_scope.

(* ---- the warning filter program of helper_methods._raise_warning ---------------------------------- *)
(* abstract interpretation: `known` = the filter is known not to be "error" *)
Fixpoint fops_safe (known : bool) (l : list fop) : bool :=
  match l with
  | [] => true
  | FSimple a :: l' => fops_safe (match a with FaError => false | _ => true end) l'
  | FWarn :: l' => known && fops_safe known l'
  end.

Lemma run_fops_safe : forall cat l known w,
  fops_safe known l = true -> (known = true -> ws_filter w <> FaError) ->
  fst (run_fops cat l w) = None.
Proof.
  induction l as [|o l IH]; intros known w Hs Hk; [reflexivity|].
  destruct o as [a|]; cbn [run_fops run_fop].
  - cbn [fops_safe] in Hs. eapply IH; [exact Hs|]. cbn. intros H. destruct a; congruence.
  - cbn [fops_safe] in Hs. apply andb_true_iff in Hs as [Hk1 Hs]. subst known.
    specialize (Hk eq_refl).
    destruct (ws_filter w) eqn:Ef; try congruence;
      try (destruct (ws_warned w)); (eapply IH; [exact Hs|]; cbn; intros _; congruence).
Qed.

(* ---- symbolic execution tactics ---------------------------------------------------------------------- *)
Ltac wnorm := repeat (progress (cbn; unfold run_body, set_ws, lift_res, await_val, after_fmt, fmt_item)).
(* (fmt_name stays folded: see fmt_name_ok) *)

Ltac rw_mode := repeat match goal with
  | H : c_mode _ = _ |- _ => progress rewrite !H
  | H : c_iscoro _ = _ |- _ => progress rewrite !H
  | H : c_named _ = _ |- _ => progress rewrite !H
  end.

Ltac dgv g :=
  match goal with
  | |- context [g ?a ?k ?c] =>
    let r := fresh "r" in let c' := fresh "c'" in destruct (g a k c) as [r c']; destruct r
  end.
Ltac dif := match goal with |- context [if ?b then _ else _] => destruct b eqn:? end.

Local Arguments rename_run : simpl never.
Local Arguments run_fops : simpl never.
Local Arguments do_call : simpl never.
(* building a message is a no-op when repr is harmless *)
Lemma fmt_vals_ok : forall Sigma (cx : ctx Sigma), repr_harmless cx -> forall l s, fmt_vals cx l s = (FmOk, s).
Proof.
  intros Sigma cx H. induction l as [|v l IH]; intros s; [reflexivity|].
  cbn [fmt_vals]. destruct (H v s) as [r E]. rewrite E. apply IH.
Qed.
(* reading the name of a callable whose name can be shown *)
Lemma fmt_name_ok : forall Sigma (cx : ctx Sigma) c, name_readable cx c -> forall s, fmt_name cx c s = (FmOk, s).
Proof.
  intros Sigma cx c [H|H] s; unfold fmt_name.
  - now rewrite H.
  - destruct (c_named (cx_callee cx c)); [reflexivity|]. cbn [fmt_vals]. destruct (H s) as [r E]. now rewrite E.
Qed.

Lemma repr_harmless_name : forall Sigma (cx : ctx Sigma) c, repr_harmless cx -> name_readable cx c.
Proof. intros Sigma cx c H. right. intros s. apply H. Qed.

Local Arguments fmt_vals : simpl never.
Local Arguments fmt_name : simpl never.
Ltac fmt_ok H := progress rewrite ?(fmt_vals_ok _ _ H).
Ltac name_ok := progress repeat match goal with H : name_readable _ _ |- _ => progress rewrite !(fmt_name_ok _ _ _ H) end.

(* ---- what a call of the callee does, from behaves_as ------------------------------------------------------ *)
Section Calls.
  Variable Sigma : Type.
  Variable cx : ctx Sigma.
  Variable c : callee.
  Variable g : base Sigma.
  Hypothesis Hf : behaves_as g (cx_callee cx c).

  Lemma call_plain : c_mode (cx_callee cx c) = false -> forall a k s,
    exists w, do_call cx c a k false s = (fst (g a k (cs s)), Build_st (snd (g a k (cs s))) w).
  Proof.
    intros Em a k s. unfold behaves_as in Hf. rewrite Em in Hf. unfold do_call.
    destruct (Hf a k s) as [w E]. rewrite E. eauto.
  Qed.

  Lemma call_unawaited : c_mode (cx_callee cx c) = true -> forall a k s, exists w1,
    (do_call cx c a k false s = (fst (g a k (cs s)), Build_st (cs s) w1) /\ snd (g a k (cs s)) = cs s
     /\ is_final (fst (g a k (cs s))) = true)
    \/ (exists v a' k', tok_args v = Some (a', k') /\ do_call cx c a k false s = (ROk v, Build_st (cs s) w1) /\
          forall s2, cs s2 = cs s ->
            exists w2, c_resume (cx_callee cx c) a' k' s2 = (fst (g a k (cs s)), Build_st (snd (g a k (cs s))) w2)).
  Proof.
    intros Em a k s. unfold behaves_as in Hf. rewrite Em in Hf. unfold do_call.
    destruct (Hf a k s) as [w1 [(E & H1 & H2) | (v & a' & k' & Ht & E & Hr)]]; rewrite E; exists w1.
    - left. auto.
    - right. exists v, a', k'. auto.
  Qed.
End Calls.

Section CallAwaited.
  Variable Sigma : Type.
  Variable cx : ctx Sigma.
  Variable g : base Sigma.
  Hypothesis Hf : behaves_as g (cx_callee cx CFunc).

  Lemma call_awaited : c_mode (cx_callee cx CFunc) = true -> forall a k s,
    exists w, do_call cx CFunc a k true s = (fst (g a k (cs s)), Build_st (snd (g a k (cs s))) w).
  Proof.
    intros Em a k s. unfold behaves_as in Hf. rewrite Em in Hf. unfold do_call.
    destruct (Hf a k s) as [w1 [(E & H1 & H2) | (v & a' & k' & Ht & E & Hr)]]; rewrite E.
    - destruct (fst (g a k (cs s))); try discriminate H2; rewrite H1; eauto.
    - destruct (Hr (Build_st (cs s) w1) eq_refl) as [w2 E2].
      unfold await_val. destruct v; try discriminate Ht.
      + destruct c; try discriminate Ht. cbn in Ht. inversion Ht; subst. rewrite E2. eauto.
      + cbn in Ht. inversion Ht; subst. rewrite E2. eauto.
  Qed.
End CallAwaited.

(* ---- renaming ---------------------------------------------------------------------------------------- *)
Lemma find_app_one : forall (A : Type) (p : A -> bool) l x,
  find p (l ++ [x]) = match find p l with Some y => Some y | None => if p x then Some x else None end.
Proof. induction l as [|y l IH]; intros x; cbn; [reflexivity|]. destruct (p y); [reflexivity|apply IH]. Qed.

Lemma rename_lookup_target : forall rules key, rename_lookup rules key = rename_target rules key.
Proof.
  unfold rename_target. induction rules as [|[f t] r IH]; intros key; [reflexivity|].
  cbn [rename_lookup rev]. rewrite find_app_one, IH. cbn [fst].
  destruct (find (fun r0 => String.eqb (fst r0) key) (rev r)) as [[f' t']|]; cbn; [reflexivity|].
  destruct (String.eqb f key); reflexivity.
Qed.

Lemma rename_step_ren : forall rules acc kv,
  rename_step rules RkRenamed RkSame acc kv = dict_set acc (ren rules (fst kv)) (snd kv).
Proof.
  intros rules acc [key v]. unfold rename_step, ren. rewrite rename_lookup_target. cbn [fst snd].
  destruct (rename_target rules key); reflexivity.
Qed.

Lemma rename_run_spec : forall rules k,
  rename_run rules RkRenamed RkSame k = dict_of_pairs (spec_renamed rules k).
Proof.
  intros rules k. unfold rename_run, dict_of_pairs, spec_renamed. generalize (@nil (string * val)).
  induction k as [|kv k IH]; intros acc; [reflexivity|].
  cbn [fold_left map]. rewrite rename_step_ren. cbn [fst snd]. apply IH.
Qed.

Definition has_key (d : kwargs) (n : string) : bool := existsb (fun kv => String.eqb (fst kv) n) d.

Lemma dict_set_fresh : forall d n v, has_key d n = false -> dict_set d n v = d ++ [(n, v)].
Proof.
  induction d as [|[k' v'] d IH]; intros n v H; [reflexivity|].
  cbn in H. apply orb_false_iff in H as [H1 H2]. cbn [dict_set]. rewrite H1. cbn. now rewrite IH.
Qed.

Lemma has_key_app : forall d e n, has_key (d ++ e) n = has_key d n || has_key e n.
Proof. intros. unfold has_key. apply existsb_app. Qed.

Lemma dict_of_pairs_distinct_gen : forall l acc,
  keys_distinct l = true -> (forall n, has_key acc n = true -> has_key l n = false) ->
  fold_left (fun acc kv => dict_set acc (fst kv) (snd kv)) l acc = acc ++ l.
Proof.
  induction l as [|[n v] l IH]; intros acc Hd Hacc; [now rewrite app_nil_r|].
  cbn [keys_distinct] in Hd. apply andb_true_iff in Hd as [Hn Hd]. apply negb_true_iff in Hn.
  cbn [fold_left fst snd]. rewrite dict_set_fresh.
  - rewrite IH; [now rewrite <- app_assoc| exact Hd |].
    intros m Hm. rewrite has_key_app in Hm. apply orb_true_iff in Hm as [Hm|Hm].
    + specialize (Hacc m Hm). cbn in Hacc. now apply orb_false_iff in Hacc as [_ ?].
    + cbn in Hm. rewrite orb_false_r in Hm. apply String.eqb_eq in Hm. subst m. exact Hn.
  - destruct (has_key acc n) eqn:E; [|reflexivity]. specialize (Hacc n E). cbn in Hacc.
    rewrite String.eqb_refl in Hacc. discriminate.
Qed.

Lemma dict_of_pairs_distinct : forall l, keys_distinct l = true -> dict_of_pairs l = l.
Proof. intros l H. unfold dict_of_pairs. rewrite dict_of_pairs_distinct_gen; auto. intros n Hn. discriminate. Qed.

Lemma spec_renamed_unlisted : forall rules k, no_listed_key rules k = true -> spec_renamed rules k = k.
Proof.
  induction k as [|[n v] k IH]; intros H; [reflexivity|].
  cbn in H. apply andb_true_iff in H as [H1 H2]. cbn [spec_renamed map fst snd]. unfold ren.
  destruct (rename_target rules n); [discriminate|]. f_equal. now apply IH.
Qed.

(* lookup characterisation, valid also when two keywords collide after renaming: the later one wins *)
Fixpoint assoc (d : kwargs) (n : string) : option val :=
  match d with [] => None | (k', v) :: d' => if String.eqb k' n then Some v else assoc d' n end.
Definition assoc_last (d : kwargs) (n : string) : option val := assoc (rev d) n.

Lemma assoc_dict_set : forall d key v n,
  assoc (dict_set d key v) n = if String.eqb key n then Some v else assoc d n.
Proof.
  induction d as [|[k' v'] d IH]; intros key v n; cbn.
  - reflexivity.
  - destruct (String.eqb k' key) eqn:E.
    + apply String.eqb_eq in E. subst k'. cbn. destruct (String.eqb key n); reflexivity.
    + cbn. rewrite IH. destruct (String.eqb k' n) eqn:E2; [|reflexivity].
      apply String.eqb_eq in E2. subst k'. rewrite String.eqb_sym, E. reflexivity.
Qed.

Lemma assoc_dict_of_pairs : forall l n, assoc (dict_of_pairs l) n = assoc_last l n.
Proof.
  intros l n. unfold dict_of_pairs, assoc_last.
  induction l as [|[key v] l IH] using rev_ind; [reflexivity|].
  rewrite fold_left_app, rev_app_distr. cbn [fold_left fst snd rev app assoc]. rewrite assoc_dict_set, IH. reflexivity.
Qed.

(* all of one call / the call phase only *)
Ltac call_full Hf :=
  match goal with
  | Em : c_mode (cx_callee ?cx CFunc) = true |- context [do_call ?cx CFunc ?a ?k true ?s1] =>
    let w := fresh "w" in let E := fresh "E" in
    destruct (call_awaited _ cx _ Hf Em a k s1) as [w E]; rewrite E; clear E
  | Em : c_mode (cx_callee ?cx CFunc) = false |- context [do_call ?cx CFunc ?a ?k false ?s1] =>
    let w := fresh "w" in let E := fresh "E" in
    destruct (call_plain _ cx CFunc _ Hf Em a k s1) as [w E]; rewrite E; clear E
  end.

Ltac call_phase Hf :=
  match goal with
  | Em : c_mode (cx_callee ?cx CFunc) = true |- context [do_call ?cx CFunc ?a ?k false ?s1] =>
    let w := fresh "w" in let E := fresh "E" in let H1 := fresh "H1" in let H2 := fresh "H2" in
    let v := fresh "tok" in let a' := fresh "a'" in let k' := fresh "k'" in let Ht := fresh "Ht" in let Hr := fresh "Hr" in
    destruct (call_unawaited _ cx CFunc _ Hf Em a k s1) as [w [(E & H1 & H2) | (v & a' & k' & Ht & E & Hr)]];
    rewrite E; clear E; [cbn [cs] in H1, H2 | cbn [cs] in Hr]
  end.

Ltac enter Hwu :=
  unfold awaited_if_coro in Hwu; unfold behaves_as, as_callee;
  destruct (c_iscoro (cx_callee _ CFunc)) eqn:Ei; destruct (c_mode (cx_callee _ CFunc)) eqn:Em;
  try discriminate Hwu; cbn; rw_mode; cbn.

(* goal: exists w1, (call-time failure) \/ (token + resume) for an async wrapper *)
Ltac async_variant :=
  let a := fresh "a" in let k := fresh "k" in
  intros a k [?c0 ?w0]; eexists; right; exists (VWrapperCoro a k), a, k;
  split; [reflexivity | split; [reflexivity|]];
  let c2 := fresh "c2" in let w2 := fresh "w2" in let Hc := fresh "Hc" in
  intros [c2 w2] Hc; cbn in Hc; subst c2.

(* close a goal `exists w1, (failed at call time) \/ (token + resume)` after symbolic execution *)
Ltac fin :=
  cbn [fst snd is_final] in *;
  first
  [ match goal with
    | Hr : (forall s2, cs s2 = _ -> exists w2, c_resume _ ?a' ?k' s2 = _), Ht : tok_args ?tok = Some (?a', ?k') |- _ =>
      eexists; right; exists tok, a', k'; split; [exact Ht | split; [reflexivity | exact Hr]]
    end
  | eexists; left; repeat split; solve [eauto | congruence] ].

Section Levels.
  Variable Sigma : Type.
  Variable cx : ctx Sigma.
  Variable g : base Sigma.
  Hypothesis Hwu : awaited_if_coro (cx_callee cx CFunc) = true.
  Hypothesis Hf : behaves_as g (cx_callee cx CFunc).
  Hypothesis Hrepr : repr_harmless cx.
  Hypothesis Hname : name_readable cx CFunc.
  Hypothesis Hfun : c_named (cx_callee cx CFunc) = true.        (* require_kwargs only: a function object *)

  Ltac sym := repeat first [progress wnorm | progress rw_mode | fmt_ok Hrepr | name_ok | call_full Hf | call_phase Hf | dif | dgv g].
  (* the three situations: coroutine function + async wrapper; coroutine mode + sync wrapper; plain function *)
  Ltac sync_coro := intros ?a ?k [?c0 ?w0]; sym; try discriminate; fin.
  Ltac plain := intros ?a ?k [?c0 ?w0]; sym; eauto.
  Ltac three := enter Hwu; [async_variant; sym; eauto | sync_coro | plain].

  Lemma meets_trace : behaves_as g (as_callee d_trace cx).
  Proof. three. Qed.

  Lemma meets_timer : behaves_as g (as_callee d_timer cx).
  Proof. three. Qed.

  Lemma meets_trace_if_returns : behaves_as g (as_callee d_trace_if_returns cx).
  Proof. three. Qed.

  (* decorators without a coroutine wrapper *)
  Ltac two := enter Hwu; [sync_coro | sync_coro | plain].

  Lemma meets_count_calls : behaves_as g (as_callee d_count_calls cx).
  Proof. two. Qed.

  Lemma meets_overrides : behaves_as g (as_callee d_overrides cx).
  Proof. unfold as_callee. cbn. exact Hf. Qed.

  Ltac no_warn_error Hs :=
    match goal with |- context [run_fops ?cat ?p ?w] =>
      let Er := fresh "Er" in
      pose proof (run_fops_safe cat p false w Hs (fun H => False_ind _ (diff_false_true H))) as Er;
      let o := fresh "o" in destruct (run_fops cat p w) as [o ?w']; cbn in Er; subst o end.

  Lemma meets_deprecated :
    fops_safe false (cx_warn_prog cx) = true -> behaves_as g (as_callee d_deprecated cx).
  Proof.
    intros Hs. enter Hwu; intros ?a ?k [?c0 ?w0]; wnorm; try name_ok; wnorm; no_warn_error Hs; sym; try discriminate; first [fin | eauto].
  Qed.

  Lemma meets_require_kwargs : forall go,
    behaves_as (spec_apply NRequireKwargs cx go g) (as_callee d_require_kwargs cx).
  Proof.
    intros go. unfold spec_apply.
    enter Hwu; intros ?a ?k [?c0 ?w0]; wnorm; rw_mode; wnorm; destruct (cx_assert_kw cx a k); sym; try discriminate; first [fin | eauto].
  Qed.

  Lemma meets_rename_kwargs : forall go,
    behaves_as (spec_apply NRenameKwargs cx go g) (as_callee d_rename_kwargs cx).
  Proof.
    intros go. unfold spec_apply.
    enter Hwu; intros ?a ?k [?c0 ?w0]; wnorm; rewrite rename_run_spec; sym; try discriminate; first [fin | eauto].
  Qed.

  (* the other function is a plain function *)
  Lemma meets_does_same : forall go,
    plain_function (cx_callee cx CFunc) = true ->
    sync_function (cx_callee cx COther) = true -> behaves_as go (cx_callee cx COther) ->
    behaves_as (spec_apply NDoesSame cx go g) (as_callee d_does_same_as_function cx).
  Proof.
    intros go Hp Hs Ho. pose proof (repr_harmless_name _ cx COther Hrepr) as Hno. unfold sync_function in Hs. apply andb_true_iff in Hs as [Hio Hmo].
    apply negb_true_iff in Hio. apply negb_true_iff in Hmo. unfold plain_function in Hp. apply eqb_prop in Hp.
    unfold spec_apply, spec_does_same.
    assert (Hcall : forall a k s, exists w, do_call cx COther a k false s = (fst (go a k (cs s)), Build_st (snd (go a k (cs s))) w))
      by (apply call_plain; assumption).
    enter Hwu; try discriminate Hp.
    - async_variant.
      repeat first [progress wnorm | progress rw_mode | fmt_ok Hrepr | name_ok | call_full Hf
                   | match goal with |- context [do_call cx COther ?a ?k false ?s1] =>
                       let w := fresh "w" in let E := fresh "E" in destruct (Hcall a k s1) as [w E]; rewrite E; clear E end
                   | dif | dgv g | dgv go]; eauto.
    - intros ?a ?k [?c0 ?w0].
      repeat first [progress wnorm | progress rw_mode | fmt_ok Hrepr | name_ok | call_full Hf
                   | match goal with |- context [do_call cx COther ?a ?k false ?s1] =>
                       let w := fresh "w" in let E := fresh "E" in destruct (Hcall a k s1) as [w E]; rewrite E; clear E end
                   | dif | dgv g | dgv go]; eauto.
  Qed.

  (* both are coroutine functions *)
  Lemma meets_does_same_async : forall go,
    c_iscoro (cx_callee cx CFunc) = true ->
    c_iscoro (cx_callee cx COther) = true -> c_mode (cx_callee cx COther) = true ->
    (forall a k s, exists w, do_call cx COther a k true s = (fst (go a k (cs s)), Build_st (snd (go a k (cs s))) w)) ->
    behaves_as (spec_apply NDoesSame cx go g) (as_callee d_does_same_as_function cx).
  Proof.
    intros go Hif Hio Hmo Hcall. pose proof (repr_harmless_name _ cx COther Hrepr) as Hno. unfold spec_apply, spec_does_same.
    enter Hwu; try discriminate Hif.
    async_variant.
    repeat first [progress wnorm | progress rw_mode | fmt_ok Hrepr | name_ok | call_full Hf
                 | match goal with |- context [do_call cx COther ?a ?k true ?s1] =>
                     let w := fresh "w" in let E := fresh "E" in destruct (Hcall a k s1) as [w E]; rewrite E; clear E end
                 | dif | dgv g | dgv go]; eauto.
  Qed.
End Levels.

(* an awaited call of the other function, a coroutine function that behaves as go *)
Lemma call_awaited_other : forall Sigma (cx : ctx Sigma) go,
  behaves_as_other go (cx_callee cx COther) -> c_mode (cx_callee cx COther) = true ->
  forall a k s, exists w, do_call cx COther a k true s = (fst (go a k (cs s)), Build_st (snd (go a k (cs s))) w).
Proof.
  intros Sigma cx go Hf Em a k s. unfold behaves_as_other in Hf. rewrite Em in Hf. unfold do_call.
  destruct (Hf a k s) as [w1 [(E & H1 & H2) | (v & a' & k' & Ht & E & Hr)]]; rewrite E.
  - destruct (fst (go a k (cs s))); try discriminate H2; rewrite H1; eauto.
  - destruct (Hr (Build_st (cs s) w1) eq_refl) as [w2 E2].
    unfold await_val. destruct v; try discriminate Ht. destruct c; try discriminate Ht.
    cbn in Ht. inversion Ht; subst. rewrite E2. eauto.
Qed.

(* mock and unimplemented never run the body: nothing at all happens to the state, whatever the callee is *)
Lemma mock_never_calls : forall Sigma (cx : ctx Sigma) a k s,
  plain_function (cx_callee cx CFunc) = true ->
  use_wrapped d_mock cx a k s = (ROk (cx_param cx "return_value"%string), s).
Proof.
  intros Sigma cx a k s H. unfold plain_function in H. apply eqb_prop in H. unfold use_wrapped, use_callee, as_callee.
  destruct (c_iscoro (cx_callee cx CFunc)) eqn:Ei; symmetry in H; wnorm; rw_mode; wnorm; reflexivity.
Qed.

Lemma unimplemented_never_calls : forall Sigma (cx : ctx Sigma) a k s,
  name_readable cx CFunc ->
  use_wrapped d_unimplemented cx a k s = (RExc NotImplementedExceptionC (XFresh 4), s).
Proof.
  intros Sigma cx a k s Hn. unfold use_wrapped, use_callee, as_callee. wnorm. try name_ok. wnorm.
  destruct (c_mode (cx_callee cx CFunc)); reflexivity.
Qed.

Lemma meets_mock : forall Sigma (cx : ctx Sigma) go g,
  plain_function (cx_callee cx CFunc) = true -> behaves_as (spec_apply NMock cx go g) (as_callee d_mock cx).
Proof.
  intros Sigma cx go g H. unfold plain_function in H. apply eqb_prop in H. unfold spec_apply, behaves_as, as_callee.
  destruct (c_iscoro (cx_callee cx CFunc)) eqn:Ei; symmetry in H; cbn; rw_mode; cbn.
  - async_variant. wnorm. eauto.
  - intros a k [c0 w0]. wnorm. eauto.
Qed.

Lemma meets_unimplemented : forall Sigma (cx : ctx Sigma) go g,
  name_readable cx CFunc ->
  behaves_as (spec_apply NUnimplemented cx go g) (as_callee d_unimplemented cx).
Proof.
  intros Sigma cx go g Hn. unfold spec_apply, behaves_as, as_callee. cbn.
  destruct (c_mode (cx_callee cx CFunc)) eqn:Em; cbn.
  - intros a k [c0 w0]. wnorm. try name_ok. wnorm. eexists. left. repeat split.
  - intros a k [c0 w0]. wnorm. try name_ok. wnorm. eauto.
Qed.

(* using it like the twin *)
Lemma behaves_use : forall Sigma (g : base Sigma) (f : cdesc Sigma), behaves_as g f -> same_as g (use_callee f).
Proof.
  intros Sigma g f H a k s. unfold behaves_as in H. unfold use_callee.
  destruct (c_mode f) eqn:Em.
  - destruct (H a k s) as [w1 [(E & H1 & H2) | (v & a' & k' & Ht & E & Hr)]]; rewrite E.
    + destruct (fst (g a k (cs s))); try discriminate H2; rewrite H1; eauto.
    + rewrite Ht. destruct (Hr (Build_st (cs s) w1) eq_refl) as [w2 E2]. rewrite E2. eauto.
  - destruct (H a k s) as [w E]. rewrite E. eauto.
Qed.

(* ---- one level of decoration, any decorator -------------------------------------------------------------- *)
Section Stack.
  Variable Sigma : Type.

  (* what a level needs beyond a well-behaved callee: harmless texts of values where the message formats them
     (trace, trace_if_returns, does_same_as_function); a function object for require_kwargs (DecoratedFunction) *)
  Definition level_side (n : dname) (cx : ctx Sigma) (go : base Sigma) : Prop :=
    match n with
    | NTrace | NTraceIfReturns => repr_harmless cx
    | NTimer | NCountCalls | NUnimplemented => name_readable cx CFunc
    | NDeprecated => name_readable cx CFunc /\ fops_safe false (cx_warn_prog cx) = true
    | NDoesSame => repr_harmless cx /\ plain_function (cx_callee cx CFunc) = true
                   /\ sync_function (cx_callee cx COther) = true /\ behaves_as go (cx_callee cx COther)
    | NRequireKwargs => c_named (cx_callee cx CFunc) = true
    | NMock => plain_function (cx_callee cx CFunc) = true
    | _ => True
    end.

  Lemma level_meets_spec : forall n (cx : ctx Sigma) go g,
    awaited_if_coro (cx_callee cx CFunc) = true -> behaves_as g (cx_callee cx CFunc) ->
    level_side n cx go ->
    behaves_as (spec_apply n cx go g) (as_callee (deco_of n) cx).
  Proof.
    intros n cx go g Hwu Hsim Hside. destruct n; cbn [deco_of]; cbn in Hside.
    - pose proof (repr_harmless_name _ cx CFunc Hside). apply meets_trace; assumption.
    - apply meets_timer; assumption.
    - apply meets_count_calls; assumption.
    - destruct Hside. apply meets_deprecated; assumption.
    - pose proof (repr_harmless_name _ cx CFunc Hside). apply meets_trace_if_returns; assumption.
    - destruct Hside as (Hr & Hp & Hs & Ho). pose proof (repr_harmless_name _ cx CFunc Hr). apply meets_does_same; assumption.
    - apply meets_rename_kwargs; assumption.
    - apply meets_overrides; assumption.
    - apply meets_require_kwargs; assumption.
    - apply meets_mock; assumption.
    - apply meets_unimplemented; assumption.
  Qed.

  Lemma level_named : forall n (cx : ctx Sigma),
    c_named (cx_callee cx CFunc) = true -> c_named (as_callee (deco_of n) cx) = true.
  Proof.
    intros n cx H. unfold as_callee. destruct (c_iscoro (cx_callee cx CFunc)); destruct n; cbn; try reflexivity; exact H.
  Qed.

  Lemma level_awaited : forall n (cx : ctx Sigma),
    awaited_if_coro (cx_callee cx CFunc) = true -> awaited_if_coro (as_callee (deco_of n) cx) = true.
  Proof.
    intros n cx H. unfold awaited_if_coro in *. unfold as_callee.
    destruct (c_iscoro (cx_callee cx CFunc)) eqn:Ei, (c_mode (cx_callee cx CFunc)) eqn:Em; try discriminate H;
      destruct n; cbn; rewrite ?Ei, ?Em; reflexivity.
  Qed.

  (* ---- stacks of any height, head = outermost decorator --------------------------------------------------- *)
  Let level := level Sigma.

  Fixpoint stack_side (l : list level) (f : cdesc Sigma) : Prop :=
    match l with
    | [] => True
    | (n, cx, go) :: l' => stack_side l' f /\ level_side n (with_callee cx (stack_callee l' f)) go
    end.

  Lemma stack_awaited : forall (l : list level) (f : cdesc Sigma), awaited_if_coro f = true -> awaited_if_coro (stack_callee l f) = true.
  Proof.
    induction l as [|[[n cx] go] l IH]; intros f H; [exact H|].
    cbn [stack_callee]. apply level_awaited. cbn. now apply IH.
  Qed.

  Lemma stack_behaves : forall (l : list level) (f : cdesc Sigma) g,
    awaited_if_coro f = true -> behaves_as g f -> stack_side l f ->
    behaves_as (stack_spec l g) (stack_callee l f).
  Proof.
    induction l as [|[[n cx] go] l IH]; intros f g Hwu Hsim Hside; [exact Hsim|].
    destruct Hside as [Hs Hl]. cbn [stack_callee stack_spec].
    apply (level_meets_spec n (with_callee cx (stack_callee l f)) go (stack_spec l g));
      [cbn; now apply stack_awaited | cbn; now apply IH | exact Hl].
  Qed.

  Theorem stack_meets_spec : forall (l : list level) (f : cdesc Sigma) g,
    awaited_if_coro f = true -> behaves_as g f -> stack_side l f ->
    same_as (stack_spec l g) (use_callee (stack_callee l f)).
  Proof. intros. apply behaves_use. now apply stack_behaves. Qed.

  (* ---- the transparent class, on the calls P ---------------------------------------------------------------- *)
  Definition transp_cond (P : args -> kwargs -> Prop) (n : dname) (cx : ctx Sigma) (go g : base Sigma) : Prop :=
    match n with
    | NTrace | NTimer | NCountCalls | NDeprecated | NTraceIfReturns | NOverrides => True
    | NRequireKwargs => forall a k, P a k -> cx_assert_kw cx a k = None
    | NRenameKwargs => forall a k, P a k -> no_listed_key (cx_rename cx) k = true /\ keys_distinct k = true
    | NDoesSame => forall a k, P a k -> forall c v c1, g a k c = (ROk v, c1) ->
                     exists v', go a k c1 = (ROk v', c1) /\ cx_vne cx v' v = false
    | NMock | NUnimplemented => False
    end.

  Lemma transp_level : forall P n cx go g g',
    transp_cond P n cx go g -> (forall a k c, P a k -> g' a k c = g a k c) ->
    forall a k c, P a k -> spec_apply n cx go g' a k c = g a k c.
  Proof.
    intros P n cx go g g' Hc Hg a k c HP. destruct n; cbn [spec_apply]; cbn in Hc; try (now apply Hg); try contradiction.
    - unfold spec_does_same. rewrite (Hg a k c HP). destruct (g a k c) as [r c1] eqn:Eg. destruct r; try reflexivity.
      destruct (Hc a k HP c v c1 Eg) as (v' & E1 & E2). rewrite E1, E2. reflexivity.
    - destruct (Hc a k HP) as [H1 H2]. rewrite spec_renamed_unlisted by exact H1.
      rewrite dict_of_pairs_distinct by exact H2. now apply Hg.
    - rewrite (Hc a k HP). now apply Hg.
  Qed.

  Lemma stack_spec_transparent : forall P (l : list level) (g : base Sigma),
    Forall (fun lv : level => transp_cond P (fst (fst lv)) (snd (fst lv)) (snd lv) g) l ->
    forall a k c, P a k -> stack_spec l g a k c = g a k c.
  Proof.
    induction l as [|[[n cx] go] l IH]; intros g HF a k c HP; [reflexivity|].
    inversion HF as [|x y H1 H2]; subst. cbn [stack_spec].
    eapply transp_level; [exact H1 | | exact HP]. intros; now apply IH.
  Qed.

  Theorem compose_any_stack : forall P (l : list level) (f : cdesc Sigma) g,
    awaited_if_coro f = true -> behaves_as g f -> stack_side l f ->
    Forall (fun lv : level => transp_cond P (fst (fst lv)) (snd (fst lv)) (snd lv) g) l ->
    same_as_on P g (use_callee (stack_callee l f)).
  Proof.
    intros P l f g Hwu Hsim Hside HF a k HP s.
    destruct (stack_meets_spec l f g Hwu Hsim Hside a k s) as [w' E].
    rewrite (stack_spec_transparent P l g HF a k (cs s) HP) in E. eauto.
  Qed.
End Stack.

Arguments level_side {Sigma} _ _ _.
Arguments stack_side {Sigma} _ _.
Arguments transp_cond {Sigma} _ _ _ _ _.

(* ---- count_calls: every call is counted once, whatever the callee does ------------------------------------- *)
Lemma cnt_get_set_same : forall id z l, cnt_get id (cnt_set id z l) = z.
Proof.
  induction l as [|[i z'] l IH]; cbn; [now rewrite Nat.eqb_refl|].
  destruct (Nat.eqb i id) eqn:E; cbn; rewrite E; [reflexivity|exact IH].
Qed.

Lemma cnt_get_set_other : forall id id' z l, id <> id' -> cnt_get id' (cnt_set id z l) = cnt_get id' l.
Proof.
  intros id id' z l H. induction l as [|[i z'] l IH]; cbn.
  - destruct (Nat.eqb id id') eqn:E; [apply Nat.eqb_eq in E; contradiction|reflexivity].
  - destruct (Nat.eqb i id) eqn:E; cbn.
    + apply Nat.eqb_eq in E. subst i. destruct (Nat.eqb id id') eqn:E2; [apply Nat.eqb_eq in E2; contradiction|reflexivity].
    + destruct (Nat.eqb i id'); [reflexivity|exact IH].
Qed.

Section Counter.
  Variable Sigma : Type.
  Variable cx : ctx Sigma.
  Let me := cx_self cx.
  Hypothesis Hname : name_readable cx CFunc.      (* the message of the print can be built *)
  (* the callee does not write THIS wrapper's counter (num_calls is an attribute of the wrapper object; an inner
     count_calls wrapper has its own) *)
  Hypothesis Hcall : forall c a k s, cnt_get me (ws_cnt (ws (snd (c_call (cx_callee cx c) a k s)))) = cnt_get me (ws_cnt (ws s)).
  Hypothesis Hres : forall c a k s, cnt_get me (ws_cnt (ws (snd (c_resume (cx_callee cx c) a k s)))) = cnt_get me (ws_cnt (ws s)).

  Lemma count_one_call : forall a k s,
    cnt_get me (ws_cnt (ws (snd (use_wrapped d_count_calls cx a k s)))) = (cnt_get me (ws_cnt (ws s)) + 1)%Z.
  Proof.
    intros a k [c0 w0]. unfold use_wrapped, use_callee, as_callee. wnorm.
    try name_ok; wnorm;
    first
    [ solve [ unfold do_call;
              match goal with |- context [c_call (cx_callee cx CFunc) ?a ?k ?s] =>
                pose proof (Hcall CFunc a k s) as H1; destruct (c_call (cx_callee cx CFunc) a k s) as [r [c1 w1]] end;
              cbn in H1; fold me in H1; rewrite cnt_get_set_same in H1;
              destruct (c_mode (cx_callee cx CFunc)); destruct r; wnorm; try exact H1;
              destruct (tok_args v) as [[a' k']|]; wnorm; try exact H1;
              rewrite Hres; exact H1 ]
    | solve [ destruct (c_mode (cx_callee cx CFunc)); wnorm; fold me; apply cnt_get_set_same ] ].
  Qed.

  (* ... and it writes nobody else's *)
  Lemma count_other_untouched : forall id a k s, id <> me ->
    (forall c a k s, cnt_get id (ws_cnt (ws (snd (c_call (cx_callee cx c) a k s)))) = cnt_get id (ws_cnt (ws s))) ->
    (forall c a k s, cnt_get id (ws_cnt (ws (snd (c_resume (cx_callee cx c) a k s)))) = cnt_get id (ws_cnt (ws s))) ->
    cnt_get id (ws_cnt (ws (snd (use_wrapped d_count_calls cx a k s)))) = cnt_get id (ws_cnt (ws s)).
  Proof.
    intros id a k [c0 w0] Hne Hc Hr. unfold use_wrapped, use_callee, as_callee. wnorm.
    try name_ok; wnorm;
    first
    [ solve [ unfold do_call;
              match goal with |- context [c_call (cx_callee cx CFunc) ?a ?k ?s] =>
                pose proof (Hc CFunc a k s) as H1; destruct (c_call (cx_callee cx CFunc) a k s) as [r [c1 w1]] end;
              cbn in H1; fold me in H1; rewrite cnt_get_set_other in H1 by (intro E; apply Hne; now rewrite E);
              destruct (c_mode (cx_callee cx CFunc)); destruct r; wnorm; try exact H1;
              destruct (tok_args v) as [[a' k']|]; wnorm; try exact H1;
              rewrite Hr; exact H1 ]
    | solve [ destruct (c_mode (cx_callee cx CFunc)); wnorm; fold me; apply cnt_get_set_other; intro E; apply Hne; now rewrite E ] ].
  Qed.

  Lemma count_history : forall calls s,
    cnt_get me (ws_cnt (ws (run_calls (use_wrapped d_count_calls cx) calls s)))
    = (cnt_get me (ws_cnt (ws s)) + Z.of_nat (List.length calls))%Z.
  Proof.
    induction calls as [|[a k] calls IH]; intros s.
    - cbn. lia.
    - cbn [run_calls List.length]. rewrite IH, count_one_call. lia.
  Qed.
End Counter.

(* ---- deprecated: exactly one DeprecationWarning per call, whatever the filter state was ---------------------- *)
Lemma n_deprecation_app : forall l1 l2, n_deprecation (l1 ++ l2) = (n_deprecation l1 + n_deprecation l2)%nat.
Proof. intros. unfold n_deprecation. now rewrite filter_app, app_length. Qed.

Local Arguments n_deprecation : simpl never.

Section Deprecated.
  Variable Sigma : Type.
  Variable cx : ctx Sigma.
  Hypothesis Hprog : cx_warn_prog cx = raise_warning_prog.
  Hypothesis Hname : name_readable cx CFunc.      (* the message of the warning can be built *)
  (* the callee itself emits no DeprecationWarning *)
  Hypothesis Hcall : forall c a k s,
    n_deprecation (ws_log (ws (snd (c_call (cx_callee cx c) a k s)))) = n_deprecation (ws_log (ws s)).
  Hypothesis Hres : forall c a k s,
    n_deprecation (ws_log (ws (snd (c_resume (cx_callee cx c) a k s)))) = n_deprecation (ws_log (ws s)).

  Lemma deprecated_one_call : forall a k s,
    n_deprecation (ws_log (ws (snd (use_wrapped d_deprecated cx a k s)))) = S (n_deprecation (ws_log (ws s))).
  Proof.
    intros a k [c0 w0]. unfold use_wrapped, use_callee, as_callee. wnorm. try name_ok. wnorm. rewrite Hprog. unfold raise_warning_prog, run_fops.
    wnorm. unfold do_call.
    match goal with |- context [c_call (cx_callee cx CFunc) ?a ?k ?s] =>
      pose proof (Hcall CFunc a k s) as H1; destruct (c_call (cx_callee cx CFunc) a k s) as [r [c1 w1]] end.
    cbn in H1. rewrite n_deprecation_app in H1. change (n_deprecation [EvWarn WDeprecation]) with 1%nat in H1.
    destruct (c_mode (cx_callee cx CFunc)); destruct r; wnorm; try lia.
    destruct (tok_args v) as [[a' k']|]; wnorm; try lia.
    rewrite Hres. cbn. lia.
  Qed.

  Lemma deprecated_history : forall calls s,
    n_deprecation (ws_log (ws (run_calls (use_wrapped d_deprecated cx) calls s)))
    = (n_deprecation (ws_log (ws s)) + List.length calls)%nat.
  Proof.
    induction calls as [|[a k] calls IH]; intros s.
    - cbn. lia.
    - cbn [run_calls List.length]. rewrite IH, deprecated_one_call. lia.
  Qed.
End Deprecated.

(* ---- overrides ------------------------------------------------------------------------------------------------- *)
Lemma overrides_decoration : forall enabled dir_of,
  run_pre (d_pre d_overrides) enabled true dir_of =
  if dir_of "base_class"%string then PreContinue else PreRaise POverrideC.
Proof. intros. cbn. destruct (dir_of "base_class"%string); reflexivity. Qed.

(* ---- metadata ---------------------------------------------------------------------------------------------------- *)
Definition all_variants_wrap (ds : list (string * deco)) : bool :=
  forallb (fun nd => forallb w_wraps (variants (snd nd))) ds.

Definition chosen_ok (c : chosen) : bool :=
  match c with ChBroken => false | _ => match attrs_of c with FromCallee => true | Own => false end end.

Definition all_selected_wrap (ds : list (string * deco)) : bool :=
  forallb (fun nd => chosen_ok (select (snd nd) true) && chosen_ok (select (snd nd) false)) ds.

Definition lookup_deco (ds : list (string * deco)) (n : string) : option deco :=
  option_map snd (find (fun nd => String.eqb (fst nd) n) ds).

Definition has_two_wrapping_variants (d : deco) : bool :=
  match d_sync d, d_async d with
  | Some s, Some a => w_wraps s && w_wraps a && negb (w_async s) && w_async a
  | _, _ => false
  end.

Definition keeps_coro (d : deco) : bool :=
  chosen_async (select d true) true && negb (chosen_async (select d false) false).

Lemma all_variants_wrap_In : forall ds, all_variants_wrap ds = true ->
  forall n d v, In (n, d) ds -> In v (variants d) -> w_wraps v = true.
Proof.
  intros ds H n d v Hd Hv. unfold all_variants_wrap in H. rewrite forallb_forall in H.
  specialize (H _ Hd). cbn in H. rewrite forallb_forall in H. now apply H.
Qed.

Lemma all_selected_wrap_In : forall ds, all_selected_wrap ds = true ->
  forall n d b, In (n, d) ds -> select d b <> ChBroken /\ attrs_of (select d b) = FromCallee.
Proof.
  intros ds H n d b Hd. unfold all_selected_wrap in H. rewrite forallb_forall in H.
  specialize (H _ Hd). cbn in H. apply andb_true_iff in H as [H1 H2].
  assert (Hb : chosen_ok (select d b) = true) by (destruct b; assumption).
  unfold chosen_ok in Hb. destruct (select d b); try discriminate; split; try discriminate;
    destruct (attrs_of _); congruence.
Qed.

Lemma as_callee_iscoro : forall Sigma d (cx : ctx Sigma),
  c_iscoro (as_callee d cx) = chosen_async (select d (c_iscoro (cx_callee cx CFunc))) (c_iscoro (cx_callee cx CFunc)).
Proof. intros. unfold as_callee. destruct (select d _) as [|v|]; try reflexivity. cbn. destruct (w_async v); reflexivity. Qed.

(* ---- classes: for_all_methods -------------------------------------------------------------------------------------- *)
Lemma class_routing_ok : forall m acc self cls0 sub a,
  class_access_ok m acc = true -> class_transparent_at forall_cfg m acc self cls0 sub a.
Proof. intros m acc self cls0 sub a H. destruct m, acc; try discriminate H; cbn; reflexivity. Qed.

Section ClassCall.
  Variable Sigma : Type.

  Lemma prepend_behaves : forall pre (fn : cdesc Sigma) g,
    behaves_as g fn -> behaves_as (fun a k c => g (pre ++ a) k c) (prepend pre fn).
  Proof.
    intros pre fn g H. unfold behaves_as in *. cbn [prepend c_mode c_call c_resume].
    destruct (c_mode fn); intros a k s; apply H.
  Qed.

  Lemma class_call_transparent : forall n (cx : ctx Sigma) fn g m acc self cls0 sub a o,
    (n = NTrace \/ n = NTimer) ->
    awaited_if_coro fn = true -> behaves_as g fn ->
    repr_harmless cx ->
    class_access_ok m acc = true -> orig_args m acc self cls0 sub a = Some o ->
    forall k, same_as_at (fun _ k c => g o k c) (class_call forall_cfg n cx fn m acc self cls0 sub) a k.
  Proof.
    intros n cx fn g m acc self cls0 sub a o Hn Hwu Hsim Hrepr Hok Ho k s.
    pose proof (class_routing_ok m acc self cls0 sub a Hok) as Hr. unfold class_transparent_at in Hr.
    rewrite Ho in Hr. unfold class_call.
    destruct (deco_args forall_cfg m acc self cls0 sub a) as [[pre given]|] eqn:Ed; [|contradiction].
    subst o.
    assert (Hs2 : behaves_as (fun a' k' c => g (pre ++ a') k' c) (cx_callee (with_callee cx (prepend pre fn)) CFunc))
      by (cbn; now apply prepend_behaves).
    assert (Hwu2 : awaited_if_coro (cx_callee (with_callee cx (prepend pre fn)) CFunc) = true) by exact Hwu.
    assert (Hrepr2 : repr_harmless (with_callee cx (prepend pre fn))) by exact Hrepr.
    pose proof (repr_harmless_name _ _ CFunc Hrepr2) as Hname2.
    assert (Hd : forall n, n = NTrace \/ n = NTimer ->
              exists w', use_wrapped (deco_of n) (with_callee cx (prepend pre fn)) given k s =
                         (fst (g (pre ++ given) k (cs s)), Build_st (snd (g (pre ++ given) k (cs s))) w')).
    { intros n' [->| ->]; cbn [deco_of]; unfold use_wrapped.
      - refine (behaves_use _ (fun a' k' c => g (pre ++ a') k' c) _ _ given k s). apply meets_trace; assumption.
      - refine (behaves_use _ (fun a' k' c => g (pre ++ a') k' c) _ _ given k s). apply meets_timer; assumption. }
    destruct (decorate_member forall_cfg m).
    - apply (behaves_use _ _ _ Hsim (pre ++ given) k s).
    - now apply Hd.
    - now apply Hd.
  Qed.
End ClassCall.

(* ---- the journal instance: "exactly one invocation with the same arguments" ------------------------------------------ *)
Definition jbase (b : beh) (accepts : callee -> args -> kwargs -> bool) (c : callee) : base jst := fun a k j =>
  if accepts c a k then
    let i := count_of c j in
    match b c a k i with
    | Ok v => (ROk v, j ++ [CallRec c a k])
    | Raise e => (RExc e (XId (match c with CFunc => i | COther => 1000 + i end)), j ++ [CallRec c a k])
    end
  else (RExc TypeErrorC (XFresh 6), j).

Lemma run_beh_same_as : forall b accepts c, same_as (jbase b accepts c) (run_beh b accepts c).
Proof.
  intros b accepts c a k [j w]. unfold run_beh, jbase. cbn [cs ws].
  destruct (accepts c a k); [|eauto]. destruct (b c a k (count_of c j)); cbn; eauto.
Qed.

(* a plain def / async def with an arbitrary behaviour behaves as that behaviour *)
Lemma beh_callee_behaves : forall b accepts iscoro, behaves_as (jbase b accepts CFunc) (beh_callee b accepts CFunc iscoro).
Proof.
  intros b accepts iscoro. unfold behaves_as, beh_callee. destruct iscoro; cbn [c_mode c_call c_resume].
  - intros a k [j w]. exists w. cbn [cs]. destruct (accepts CFunc a k) eqn:Ea.
    + right. exists (VPending CFunc a k), a, k. repeat split.
      intros s2 Hs2. destruct (run_beh_same_as b accepts CFunc a k s2) as [w2 E]. rewrite E, Hs2. eauto.
    + left. unfold jbase. rewrite Ea. repeat split.
  - apply run_beh_same_as.
Qed.

Lemma beh_callee_other_async : forall b accepts, behaves_as_other (jbase b accepts COther) (beh_callee b accepts COther true).
Proof.
  intros b accepts. unfold behaves_as_other, beh_callee. cbn [c_mode c_call c_resume].
  intros a k [j w]. exists w. cbn [cs]. destruct (accepts COther a k) eqn:Ea.
  - right. exists (VPending COther a k), a, k. repeat split.
    intros s2 Hs2. destruct (run_beh_same_as b accepts COther a k s2) as [w2 E]. rewrite E, Hs2. eauto.
  - left. unfold jbase. rewrite Ea. repeat split.
Qed.

Lemma beh_callee_other_sync : forall b accepts, behaves_as (jbase b accepts COther) (beh_callee b accepts COther false).
Proof. intros. unfold behaves_as, beh_callee. cbn. apply run_beh_same_as. Qed.
