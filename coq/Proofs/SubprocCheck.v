(* C17 - the finite sweeps, kept in their own file so that `make` re-runs them exactly when the
   translator output changes.

   For each of the finitely many callee behaviours the interpreter can tell apart
   (SubprocReach.all_behs_complete / lstep_ext) the candidate reachable set is closed under
   every step (so it contains every state reachable under ANY schedule: closed_sound) and all
   its members satisfy the state facts, all its transitions the measure fact, of
   Proofs/SubprocLocal.v.  The domain genuinely is finite; the bound is `all_behs` itself.

   `programs_check`: the REGENERATED programs (Gen/Subproc.v): strict for unpickling failures
   (nothing left behind), NOT strict for a cancellation delivered at the wait (only the outcome).
   `protected_strict`: a reference parent program - the current one with a cleanup handler around
   the wait - satisfies the facts strict in both respects: nothing is left behind on ANY exit path.                                       *)
From Coq Require Import List Bool.
From PV Require Import Base.Exn Model.PipeKernel Model.Subproc Proofs.SubprocReach Proofs.SubprocLocal Gen.Subproc.
Import ListNotations.

(* after fix K2 (join()/rx.close() in a finally): the REGENERATED programs pass the STRICT sweep *)
(* after fix K5 (cleanup handler around the wait): strict also for cancellation *)
Lemma programs_check : check_all Gen.Subproc.parent_prog Gen.Subproc.child_prog true true = true.
Proof. vm_cast_no_check (@eq_refl bool true). Qed.

(* reference: the current parent program with the wait under `except BaseException:` whose body removes
   the reader, kills and joins the child, closes the read end and re-raises (candidate repair of C17-K5) *)
Definition protected_parent_prog : list pop :=
  [ PRequirePipe; PPipe; PMkProcess; PStart; PCloseTx; PNewEvent; PGetLoop; PAddReader;
    PIfNotPollWaitH 4; PRemoveReader; PKill KSigKill; PJoin; PCloseRx; PReraise;
    PRemoveReader; PClearEvent;
    PRecvDefer [([EOFErrorC; OSErrorC], PASetChildProcessError)]; PJoin; PCloseRx; PReraise;
    PRaiseIfError; PReturn ].

Lemma protected_strict : check_all protected_parent_prog Gen.Subproc.child_prog true true = true.
Proof. vm_cast_no_check (@eq_refl bool true). Qed.

(* reference: the current parent program with process.join() moved in front of rx.recv().  With the
   capacity of the pipe buffer in the model (Model/Subproc.v, parent_receiving) it fails the sweep: for
   a large result the child blocks in write() while the parent blocks in join(). *)
Definition join_first_parent_prog : list pop :=
  [ PRequirePipe; PPipe; PMkProcess; PStart; PCloseTx; PNewEvent; PGetLoop; PAddReader;
    PIfNotPollWaitH 4; PRemoveReader; PKill KSigKill; PJoin; PCloseRx; PReraise;
    PRemoveReader; PClearEvent;
    PJoin;
    PRecvDefer [([EOFErrorC; OSErrorC], PASetChildProcessError)]; PCloseRx; PReraise;
    PRaiseIfError; PReturn ].

Lemma join_first_fails_sweep : check_all join_first_parent_prog Gen.Subproc.child_prog true true = false.
Proof. vm_cast_no_check (@eq_refl bool false). Qed.

(* reference: the current parent program with process.terminate() (SIGTERM) in place of process.kill()
   (SIGKILL) in the cleanup handler around the wait - the "stop the worker gracefully" edit.  The
   behaviours include children in which SIGTERM is not fatal (`b_term_fatal` = false: the application's
   own SIGTERM handler / SIG_IGN is inherited by fork): there the handler goes on to process.join() with
   the callee still computing, i.e. the coroutine holds the loop thread in a synchronous wait for as long
   as the callee runs (fact F4, f_nonblocking, fails). *)
Definition terminate_parent_prog : list pop :=
  [ PRequirePipe; PPipe; PMkProcess; PStart; PCloseTx; PNewEvent; PGetLoop; PAddReader;
    PIfNotPollWaitH 4; PRemoveReader; PKill KSigTerm; PJoin; PCloseRx; PReraise;
    PRemoveReader; PClearEvent;
    PRecvDefer [([EOFErrorC; OSErrorC], PASetChildProcessError)]; PJoin; PCloseRx; PReraise;
    PRaiseIfError; PReturn ].

Lemma terminate_fails_sweep : check_all terminate_parent_prog Gen.Subproc.child_prog true true = false.
Proof. vm_cast_no_check (@eq_refl bool false). Qed.
