(* C17 - the finite sweeps, kept in their own file so that `make` re-runs them exactly when the
   translator output changes.

   For each of the finitely many callee behaviours the interpreter can tell apart
   (SubprocReach.all_behs_complete / lstep_ext) the candidate reachable set is closed under
   every step (so it contains every state reachable under ANY schedule: closed_sound) and all
   its members satisfy the state facts, all its transitions the measure fact, of
   Proofs/SubprocLocal.v.  The domain genuinely is finite; the bound is `all_behs` itself.

   `programs_check`: the REGENERATED programs (Gen/Subproc.v), non-strict facts (where unpickling
   in the parent raises, only the outcome is demanded).
   `protected_strict`: a reference parent program - the current one with join()/rx.close() moved
   into a `finally` of the recv try statement - satisfies the STRICT facts: nothing is left
   behind on any exit path, also when unpickling raises.                                       *)
From Coq Require Import List Bool.
From PV Require Import Base.Exn Model.PipeKernel Model.Subproc Proofs.SubprocReach Proofs.SubprocLocal Gen.Subproc.
Import ListNotations.

(* after fix K2 (join()/rx.close() in a finally): the REGENERATED programs pass the STRICT sweep *)
Lemma programs_check : check_all Gen.Subproc.parent_prog Gen.Subproc.child_prog true = true.
Proof. vm_cast_no_check (@eq_refl bool true). Qed.

Definition protected_parent_prog : list pop :=
  [ PRequirePipe; PPipe; PMkProcess; PStart; PCloseTx; PNewEvent; PGetLoop; PAddReader; PIfNotPollWait;
    PRemoveReader; PClearEvent;
    PRecvDefer [([EOFErrorC; OSErrorC], PASetChildProcessError)]; PJoin; PCloseRx; PReraise;
    PRaiseIfError; PReturn ].

Lemma protected_strict : check_all protected_parent_prog Gen.Subproc.child_prog true = true.
Proof. vm_cast_no_check (@eq_refl bool true). Qed.
