(* C17 - the finite sweep on the REGENERATED programs (Gen/Subproc.v), kept in its own file so
   that `make` re-runs it exactly when the translator output changes.

   For each of the finitely many callee behaviours the interpreter can tell apart
   (SubprocReach.all_behs_complete / lstep_ext) the candidate reachable set is closed under
   every step (so it contains every state reachable under ANY schedule: closed_sound) and all
   its members satisfy the state facts, all its transitions the measure fact, of
   Proofs/SubprocLocal.v.  The domain genuinely is finite; the bound is `all_behs` itself.  *)
From Coq Require Import List Bool.
From PV Require Import Model.Subproc Proofs.SubprocReach Proofs.SubprocLocal Gen.Subproc.

Lemma programs_check : check_all Gen.Subproc.parent_prog Gen.Subproc.child_prog = true.
Proof. vm_cast_no_check (@eq_refl bool true). Qed.
