(* Python classes and values as seen by the type checker.

   Classes: the builtin ones the checker can meet plus an infinite, computable universe of
   user classes (single inheritance from object; a user class is the path of its ancestors,
   issubclass is the prefix test).  Class identity = class name (modelling assumption).
   Values: trees; containers carry their iteration order as a list (order independence is a
   theorem, not an assumption).  Assumed of real values: __eq__/__iter__/__len__/__class__ are
   the builtin ones (total, side-effect free); the generators never build objects overriding them. *)
From Coq Require Import List Arith Bool ZArith.
From PV Require Import Base.Exn.
Import ListNotations.

Inductive cls :=
| CObject | CType | CNoneType | CBool | CInt | CFloat | CStr | CBytes
| CList | CTuple | CSet | CFrozenSet | CDict | CDeque | CDefaultDict | COrderedDict
| CDictKeys | CDictValues | CDictItems | CListIterator | CFunction | CBuiltinFn
| CInspectEmpty                       (* inspect.Parameter.empty: the missing annotation of a function parameter *)
| CUser (path : list nat).

Fixpoint list_nat_eqb (a b : list nat) : bool :=
  match a, b with
  | [], [] => true
  | x :: a', y :: b' => Nat.eqb x y && list_nat_eqb a' b'
  | _, _ => false
  end.

Definition cls_eqb (a b : cls) : bool :=
  match a, b with
  | CObject, CObject | CType, CType | CNoneType, CNoneType | CBool, CBool | CInt, CInt | CFloat, CFloat
  | CStr, CStr | CBytes, CBytes | CList, CList | CTuple, CTuple | CSet, CSet | CFrozenSet, CFrozenSet
  | CDict, CDict | CDeque, CDeque | CDefaultDict, CDefaultDict | COrderedDict, COrderedDict
  | CDictKeys, CDictKeys | CDictValues, CDictValues | CDictItems, CDictItems | CListIterator, CListIterator
  | CFunction, CFunction | CBuiltinFn, CBuiltinFn | CInspectEmpty, CInspectEmpty => true
  | CUser p, CUser q => list_nat_eqb p q
  | _, _ => false
  end.

(* issubclass(a, b) *)
Definition subclass (a b : cls) : bool :=
  match b with
  | CObject => true
  | CUser q => match a with CUser p => prefix q p | _ => false end
  | CInt => match a with CInt | CBool => true | _ => false end
  | CDict => match a with CDict | CDefaultDict | COrderedDict => true | _ => false end
  | _ => cls_eqb a b
  end.

(* a function object as far as inspect.signature shows it: per parameter its annotation
   (None = no annotation, Some None = Any, Some (Some c) = class c) and whether it has a default *)
Record fsig := {
  fs_params : list (option (option cls) * bool);
  fs_ret : option (option cls);
  fs_coroutine : bool;
}.

Inductive value :=
| VNone
| VBool (b : bool)
| VInt (z : Z)
| VFloat (twice : Z)                (* the float twice/2: enough to have integral and non-integral floats *)
| VStr (chars : list nat)
| VBytes (bytes : list nat)
| VList (l : list value)
| VTuple (l : list value)
| VSet (l : list value)             (* iteration order; elements pairwise distinct (wf) *)
| VFrozenSet (l : list value)
| VDict (kvs : list (value * value))
| VDefaultDict (kvs : list (value * value))
| VOrderedDict (kvs : list (value * value))
| VDeque (l : list value)
| VKeysView (l : list value)
| VValuesView (l : list value)
| VItemsView (kvs : list (value * value))
| VIter (l : list value)            (* one-shot iterator over l *)
| VInst (c : list nat) (id : nat)   (* instance number id of user class c *)
| VClass (c : cls)                  (* a class object *)
| VFun (s : fsig)                   (* def function *)
| VLambda
| VBuiltinFn
| VObject.                          (* object() *)

Definition class_of (v : value) : cls :=
  match v with
  | VNone => CNoneType | VBool _ => CBool | VInt _ => CInt | VFloat _ => CFloat | VStr _ => CStr | VBytes _ => CBytes
  | VList _ => CList | VTuple _ => CTuple | VSet _ => CSet | VFrozenSet _ => CFrozenSet
  | VDict _ => CDict | VDefaultDict _ => CDefaultDict | VOrderedDict _ => COrderedDict | VDeque _ => CDeque
  | VKeysView _ => CDictKeys | VValuesView _ => CDictValues | VItemsView _ => CDictItems | VIter _ => CListIterator
  | VInst c _ => CUser c | VClass _ => CType | VFun _ | VLambda => CFunction | VBuiltinFn => CBuiltinFn
  | VObject => CObject
  end.

Definition isinstance (v : value) (c : cls) : bool := subclass (class_of v) c.

(* what `for x in v` yields; None = not iterable (TypeError) *)
Definition iter_values (v : value) : option (list value) :=
  match v with
  | VStr cs => Some (map (fun c => VStr [c]) cs)
  | VBytes bs => Some (map (fun b => VInt (Z.of_nat b)) bs)
  | VList l | VTuple l | VSet l | VFrozenSet l | VDeque l | VKeysView l | VValuesView l | VIter l => Some l
  | VDict kvs | VDefaultDict kvs | VOrderedDict kvs => Some (map fst kvs)
  | VItemsView kvs => Some (map (fun kv => VTuple [fst kv; snd kv]) kvs)
  | _ => None
  end.

(* v.items() ; None = AttributeError *)
Definition items_of (v : value) : option (list (value * value)) :=
  match v with
  | VDict kvs | VDefaultDict kvs | VOrderedDict kvs => Some kvs
  | _ => None
  end.

(* pairs yielded by iterating an items view (or anything iterable whose elements unpack into two) *)
Definition pairs_of (v : value) : option (list (value * value)) :=
  match v with
  | VItemsView kvs => Some kvs
  | _ => None
  end.

(* Python == on the scalar fragment that can appear in Literal[...]; containers compare by
   structure only as far as needed (never generated inside Literal) *)
Definition num_of (v : value) : option Z :=     (* twice the numeric value *)
  match v with
  | VBool b => Some (if b then 2 else 0)%Z
  | VInt z => Some (2 * z)%Z
  | VFloat t => Some t
  | _ => None
  end.

Definition py_eq_scalar (a b : value) : bool :=
  match num_of a, num_of b with
  | Some x, Some y => Z.eqb x y
  | _, _ =>
    match a, b with
    | VNone, VNone => true
    | VStr x, VStr y => list_nat_eqb x y
    | VBytes x, VBytes y => list_nat_eqb x y
    | VInst c i, VInst d j => list_nat_eqb c d && Nat.eqb i j
    | VClass c, VClass d => cls_eqb c d
    | _, _ => false
    end
  end.

Definition py_in_scalar (v : value) (l : list value) : bool := existsb (py_eq_scalar v) l.

(* same class and equal: the part of Literal membership on which the property text gives an oracle *)
Definition same_class_eq (a b : value) : bool := cls_eqb (class_of a) (class_of b) && py_eq_scalar a b.
