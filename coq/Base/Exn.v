(* Exceptions and outcomes shared by all models.

   An exception class is a path in a single-inheritance tree rooted at BaseException:
   [] is BaseException, [0] is Exception, [0;k] the k-th direct subclass of Exception ...
   `derives e c` is Python's issubclass(e, c) on that tree (prefix test).  The tree is
   infinite and the relation computable, so theorems quantify over *all* exception
   classes, not over an enumeration.  The harness owns the map path -> real class
   (harness/excs.py) and builds unknown paths as fresh dynamic classes.               *)
From Coq Require Import List Arith Bool ZArith.
Import ListNotations.

Definition exn := list nat.

Fixpoint prefix (c e : list nat) : bool :=
  match c, e with
  | [], _ => true
  | x :: c', y :: e' => Nat.eqb x y && prefix c' e'
  | _ :: _, [] => false
  end.

Definition derives (e c : exn) : bool := prefix c e.

Definition BaseExceptionC : exn := [].
Definition ExceptionC : exn := [0].
Definition KeyboardInterruptC : exn := [1].
Definition SystemExitC : exn := [2].
Definition GeneratorExitC : exn := [3].

(* direct subclasses of Exception, fixed numbering shared with harness/excs.py *)
Definition PedanticExceptionC : exn := [0; 0].
Definition PTypeCheckC : exn := [0; 0; 0].
Definition PDocstringC : exn := [0; 0; 1].
Definition POverrideC : exn := [0; 0; 2].
Definition PCallWithArgsC : exn := [0; 0; 3].
Definition PTypeVarMismatchC : exn := [0; 0; 4].
Definition ValueErrorC : exn := [0; 1].
Definition TypeErrorC : exn := [0; 2].
Definition LookupErrorC : exn := [0; 3].
Definition IndexErrorC : exn := [0; 3; 0].
Definition KeyErrorC : exn := [0; 3; 1].
Definition AttributeErrorC : exn := [0; 4].
Definition AssertionErrorC : exn := [0; 5].
Definition RuntimeErrorC : exn := [0; 6].
Definition RecursionErrorC : exn := [0; 6; 0].
Definition NotImplementedErrorC : exn := [0; 6; 1].
Definition StopIterationC : exn := [0; 7].
Definition StopAsyncIterationC : exn := [0; 8].
Definition ArithmeticErrorC : exn := [0; 9].
Definition OverflowErrorC : exn := [0; 9; 0].
Definition NameErrorC : exn := [0; 10].
Definition OSErrorC : exn := [0; 11].
Definition EOFErrorC : exn := [0; 12].
(* validate package *)
Definition ValidateExceptionC : exn := [0; 13].
Definition ValidatorExceptionC : exn := [0; 13; 0].
Definition ParameterExceptionC : exn := [0; 13; 1].
Definition ConversionErrorC : exn := [0; 13; 2].
Definition TooManyArgumentsC : exn := [0; 13; 3].
Definition NotImplementedExceptionC : exn := [0; 14].
(* [0; k] with k >= 20: user-defined classes created by the harness *)

Definition is_exception (e : exn) : bool := derives e ExceptionC.
Definition is_pedantic (e : exn) : bool := derives e PedanticExceptionC.

Inductive outcome (A : Type) : Type :=
| Ok : A -> outcome A
| Raise : exn -> outcome A.
Arguments Ok {A} _.
Arguments Raise {A} _.

Definition bind {A B} (m : outcome A) (f : A -> outcome B) : outcome B :=
  match m with Ok a => f a | Raise e => Raise e end.

Lemma prefix_refl : forall c, prefix c c = true.
Proof. induction c as [|x c IH]; simpl; [reflexivity|]. now rewrite Nat.eqb_refl, IH. Qed.

Lemma prefix_trans : forall a b c, prefix a b = true -> prefix b c = true -> prefix a c = true.
Proof.
  induction a as [|x a IH]; intros b c Hab Hbc; [reflexivity|].
  destruct b as [|y b]; [discriminate|]. destruct c as [|z c]; [discriminate|].
  simpl in *. apply andb_true_iff in Hab as [H1 H2]. apply andb_true_iff in Hbc as [H3 H4].
  apply Nat.eqb_eq in H1; apply Nat.eqb_eq in H3; subst.
  rewrite Nat.eqb_refl; simpl. eauto.
Qed.

Lemma derives_refl : forall e, derives e e = true.
Proof. intro; apply prefix_refl. Qed.

Lemma derives_trans : forall a b c, derives a b = true -> derives b c = true -> derives a c = true.
Proof. unfold derives; intros; eapply prefix_trans; eauto. Qed.
