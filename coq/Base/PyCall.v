(* CPython's own argument binding, as far as @pedantic / @require_kwargs can observe it:
   positional-only, positional-or-keyword, *args, keyword-only, **kwargs parameters, defaults,
   and the TypeErrors of a call that does not fit (too many positionals, multiple values,
   missing argument, unexpected keyword).

   Identity of argument objects is explicit: a binding maps every parameter to the *source*
   of the object it receives (the i-th explicit positional argument, the keyword k, the
   default object of parameter k, or an implicit receiver object such as `self` / `cls`),
   so "the body receives the very same argument objects" is an equation between bindings.

   Modelled, not verified (validated by the correspondence of C03/C04/C05 on every run).
   Definitions only; lemmas live in Proofs/PyCallFacts.v.                                   *)
From Coq Require Import List Arith Bool.
From PV Require Import Base.Exn Base.Values Base.Ann.
Import ListNotations.

Definition pname := nat.
Definition self_name : pname := 0.          (* the parameter name 'self' *)

Inductive pkind := PosOnly | PosOrKw | VarPos | KwOnly | VarKw.

Record param := {
  p_name : pname;
  p_kind : pkind;
  p_ann : option ann;                       (* None: inspect.Parameter.empty *)
  p_default : option value;                 (* None: no default *)
}.

(* where an object handed to the function comes from *)
Inductive src :=
| SObj (v : value)        (* an implicit receiver (instance / class object); instances and classes are their own identity *)
| SArg (i : nat)          (* the i-th positional argument written by the caller *)
| SKw (k : pname)         (* the value of keyword k written by the caller *)
| SDefault (k : pname).   (* the default object of parameter k *)

Inductive slot :=
| BOne (s : src)
| BStar (l : list src)    (* the tuple bound to *args *)
| BKws (l : list pname).  (* the keys of the dict bound to **kwargs, in call order *)

Definition binding := list (pname * slot).

Definition mem (k : pname) (l : list pname) : bool := existsb (Nat.eqb k) l.

Definition is_pos (p : param) : bool := match p_kind p with PosOnly | PosOrKw => true | _ => false end.
Definition takes_kw (p : param) : bool := match p_kind p with PosOrKw | KwOnly => true | _ => false end.
Definition is_varpos (p : param) : bool := match p_kind p with VarPos => true | _ => false end.
Definition is_varkw (p : param) : bool := match p_kind p with VarKw => true | _ => false end.
Definition is_star (p : param) : bool := is_varpos p || is_varkw p.     (* str(param).startswith('*') *)
Definition kw_param_names (ps : list param) : list pname := map p_name (filter takes_kw ps).
Definition has_varpos (ps : list param) : bool := existsb is_varpos ps.
Definition has_varkw (ps : list param) : bool := existsb is_varkw ps.

Definition omap {A B} (f : A -> B) (m : outcome A) : outcome B :=
  match m with Ok a => Ok (f a) | Raise e => Raise e end.

Definition by_default (p : param) : outcome slot :=
  match p_default p with Some _ => Ok (BOne (SDefault (p_name p))) | None => Raise TypeErrorC end.

(* parameters in declaration order; `pos` the positional arguments not yet consumed *)
Fixpoint bind_go (all ps : list param) (pos : list src) (kws : list pname) : outcome binding :=
  match ps with
  | [] => match pos with [] => Ok [] | _ :: _ => Raise TypeErrorC end          (* too many positional arguments *)
  | p :: ps' =>
      let n := p_name p in
      match p_kind p with
      | PosOnly =>
          match pos with
          | s :: pos' => omap (cons (n, BOne s)) (bind_go all ps' pos' kws)
          | [] => match by_default p with
                  | Ok sl => omap (cons (n, sl)) (bind_go all ps' [] kws)
                  | Raise e => Raise e
                  end
          end
      | PosOrKw =>
          match pos with
          | s :: pos' => if mem n kws then Raise TypeErrorC                      (* multiple values *)
                         else omap (cons (n, BOne s)) (bind_go all ps' pos' kws)
          | [] => if mem n kws then omap (cons (n, BOne (SKw n))) (bind_go all ps' [] kws)
                  else match by_default p with
                       | Ok sl => omap (cons (n, sl)) (bind_go all ps' [] kws)
                       | Raise e => Raise e
                       end
          end
      | VarPos => omap (cons (n, BStar pos)) (bind_go all ps' [] kws)
      | KwOnly =>
          if mem n kws then omap (cons (n, BOne (SKw n))) (bind_go all ps' pos kws)
          else match by_default p with
               | Ok sl => omap (cons (n, sl)) (bind_go all ps' pos kws)
               | Raise e => Raise e
               end
      | VarKw =>
          omap (cons (n, BKws (filter (fun k => negb (mem k (kw_param_names all))) kws))) (bind_go all ps' pos kws)
      end
  end.

(* the call func( *pos, **kws ) *)
Definition py_bind (ps : list param) (pos : list src) (kws : list pname) : outcome binding :=
  if forallb (fun k => mem k (kw_param_names ps) || has_varkw ps) kws
  then bind_go ps ps pos kws
  else Raise TypeErrorC.                                                          (* unexpected keyword *)

Definition python_accepts (ps : list param) (pos : list src) (kws : list pname) : bool :=
  match py_bind ps pos kws with Ok _ => true | Raise _ => false end.

(* a signature CPython can produce: kinds in the order / * , at most one *args and one **kwargs,
   pairwise distinct names *)
Definition kind_rank (k : pkind) : nat :=
  match k with PosOnly => 0 | PosOrKw => 1 | VarPos => 2 | KwOnly => 3 | VarKw => 4 end.
Fixpoint ranks_ok (ps : list param) (lo : nat) : bool :=
  match ps with
  | [] => true
  | p :: ps' =>
      let r := kind_rank (p_kind p) in
      Nat.leb lo r && ranks_ok ps' (match p_kind p with VarPos => 3 | VarKw => 5 | _ => r end)
  end.
Fixpoint distinct (l : list pname) : bool :=
  match l with [] => true | x :: l' => negb (mem x l') && distinct l' end.
Definition wf_sig (ps : list param) : bool := ranks_ok ps 0 && distinct (map p_name ps).

Fixpoint kw_get (k : pname) (kws : list (pname * value)) : option value :=
  match kws with
  | [] => None
  | (j, v) :: kws' => if Nat.eqb k j then Some v else kw_get k kws'
  end.
