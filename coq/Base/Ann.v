(* Abstract syntax of annotation objects, keeping the *spelling* (typing.List[int] vs list[int],
   Union/Optional vs X | Y), because the implementation's behaviour depends on it.            *)
From Coq Require Import List Arith Bool ZArith.
From PV Require Import Base.Exn Base.Values.
Import ListNotations.

(* names of the typing module that the checker's tables mention or that the model distinguishes *)
Inductive tname :=
| TList | TSet | TFrozenSet | TDict | TTuple | TType | TDeque | TDefaultDict | TOrderedDict | TCounter | TChainMap
| TIterable | TCollection | TContainer | TSequence | TMutableSequence | TAbstractSet | TMutableSet
| TMapping | TMutableMapping | TMappingView | TKeysView | TValuesView | TItemsView | TByteString | TAsyncIterable
| TGenerator | TIterator | TAwaitable | TCoroutine
| TCallable | TUnion | TOptional | TLiteral | TAny.

Definition tname_code (t : tname) : nat :=
  match t with
  | TList => 0 | TSet => 1 | TFrozenSet => 2 | TDict => 3 | TTuple => 4 | TType => 5 | TDeque => 6 | TDefaultDict => 7
  | TOrderedDict => 8 | TCounter => 9 | TChainMap => 10 | TIterable => 11 | TCollection => 12 | TContainer => 13
  | TSequence => 14 | TMutableSequence => 15 | TAbstractSet => 16 | TMutableSet => 17 | TMapping => 18
  | TMutableMapping => 19 | TMappingView => 20 | TKeysView => 21 | TValuesView => 22 | TItemsView => 23
  | TByteString => 24 | TAsyncIterable => 25 | TGenerator => 26 | TIterator => 27 | TAwaitable => 28 | TCoroutine => 29
  | TCallable => 30 | TUnion => 31 | TOptional => 32 | TLiteral => 33 | TAny => 34
  end.
Definition tname_eqb (a b : tname) : bool := Nat.eqb (tname_code a) (tname_code b).

Definition all_tnames : list tname :=
  [TList; TSet; TFrozenSet; TDict; TTuple; TType; TDeque; TDefaultDict; TOrderedDict; TCounter; TChainMap;
   TIterable; TCollection; TContainer; TSequence; TMutableSequence; TAbstractSet; TMutableSet;
   TMapping; TMutableMapping; TMappingView; TKeysView; TValuesView; TItemsView; TByteString; TAsyncIterable;
   TGenerator; TIterator; TAwaitable; TCoroutine; TCallable; TUnion; TOptional; TLiteral; TAny].

Inductive spell := SpTyping | SpBuiltin | SpAbc.     (* typing.List[int]  |  list[int]  |  collections.abc.Sequence[int], collections.deque[int] *)
Definition is_abc (sp : spell) : bool := match sp with SpAbc => true | _ => false end.
Inductive uspell := UTyping | UPipe.         (* typing.Union / Optional  |  X | Y *)

(* TypeVar objects: identity + declared constraints / bound / variance *)
Record tvar := {
  tv_id : nat;
  tv_constraints : list cls;
  tv_bound : option cls;
  tv_contravariant : bool;
}.

Inductive ann :=
| ANone                                        (* the object None used as annotation (top level only) *)
| ACls (c : cls)                               (* a plain class, NoneType included *)
| AAny
| AUnion (sp : uspell) (args : list ann)       (* after typing's own normalisation *)
| ALiteral (vals : list value)
| ANewType (super : ann)
| AFwdRef (name : nat)                         (* typing.ForwardRef('<name>'), resolved through the context *)
| AStr (name : nat)                            (* a plain string annotation (top level only) *)
| AGeneric (sp : spell) (o : tname) (args : list ann)
| ATupleVar (sp : spell) (elem : ann)          (* Tuple[X, ...] *)
| ATupleEmpty (sp : spell)                     (* Tuple[()] *)
| ABare (o : tname)                            (* typing.List, typing.Callable ... without arguments (bare builtins are ACls) *)
| ACallable (params : option (list ann)) (ret : ann)   (* None = Callable[..., R] *)
| ATypeVar (t : tvar)
| AOther (k : nat).                            (* anything else: unsupported special forms, malformed objects *)

(* nested induction principle: the generated one gives no hypothesis for list arguments *)
Section AnnInd.
  Variable P : ann -> Prop.
  Hypothesis HNone : P ANone.
  Hypothesis HCls : forall c, P (ACls c).
  Hypothesis HAny : P AAny.
  Hypothesis HUnion : forall sp args, Forall P args -> P (AUnion sp args).
  Hypothesis HLiteral : forall vals, P (ALiteral vals).
  Hypothesis HNewType : forall s, P s -> P (ANewType s).
  Hypothesis HFwd : forall n, P (AFwdRef n).
  Hypothesis HStr : forall n, P (AStr n).
  Hypothesis HGeneric : forall sp o args, Forall P args -> P (AGeneric sp o args).
  Hypothesis HTupleVar : forall sp e, P e -> P (ATupleVar sp e).
  Hypothesis HTupleEmpty : forall sp, P (ATupleEmpty sp).
  Hypothesis HBare : forall o, P (ABare o).
  Hypothesis HCallable : forall ps r, (forall l, ps = Some l -> Forall P l) -> P r -> P (ACallable ps r).
  Hypothesis HTypeVar : forall t, P (ATypeVar t).
  Hypothesis HOther : forall k, P (AOther k).

  Fixpoint ann_ind' (a : ann) : P a :=
    let fix go (l : list ann) : Forall P l :=
      match l with
      | [] => Forall_nil P
      | x :: l' => Forall_cons x (ann_ind' x) (go l')
      end in
    match a with
    | ANone => HNone
    | ACls c => HCls c
    | AAny => HAny
    | AUnion sp args => HUnion sp args (go args)
    | ALiteral vals => HLiteral vals
    | ANewType s => HNewType s (ann_ind' s)
    | AFwdRef n => HFwd n
    | AStr n => HStr n
    | AGeneric sp o args => HGeneric sp o args (go args)
    | ATupleVar sp e => HTupleVar sp e (ann_ind' e)
    | ATupleEmpty sp => HTupleEmpty sp
    | ABare o => HBare o
    | ACallable ps r =>
        HCallable ps r
          (match ps as ps0 return (forall l, ps0 = Some l -> Forall P l) with
           | Some l0 => fun l E => match E in (_ = y) return (match y with Some l1 => Forall P l1 | None => True end)
                                   with eq_refl => go l0 end
           | None => fun l E => match E in (_ = y) return (match y with Some l1 => Forall P l1 | None => True end)
                                with eq_refl => I end
           end)
          (ann_ind' r)
    | ATypeVar t => HTypeVar t
    | AOther k => HOther k
    end.
End AnnInd.

(* the class a typing origin stands for at run time: isinstance(value, <origin>) including ABC
   registration.  Validated exhaustively (all origins x all value classes) against CPython in
   harness/selftest.py on every setup. *)
Definition abc_instance (o : tname) (c : cls) : bool :=
  match o with
  | TList => cls_eqb c CList
  | TSet => cls_eqb c CSet
  | TFrozenSet => cls_eqb c CFrozenSet
  | TDict | TMapping | TMutableMapping => subclass c CDict
  | TTuple => cls_eqb c CTuple
  | TType => cls_eqb c CType
  | TDeque => cls_eqb c CDeque
  | TDefaultDict => cls_eqb c CDefaultDict
  | TOrderedDict => cls_eqb c COrderedDict
  | TIterable =>
      match c with
      | CStr | CBytes | CList | CTuple | CSet | CFrozenSet | CDict | CDeque | CDefaultDict | COrderedDict
      | CDictKeys | CDictValues | CDictItems | CListIterator => true
      | _ => false
      end
  | TCollection | TContainer =>
      match c with
      | CStr | CBytes | CList | CTuple | CSet | CFrozenSet | CDict | CDeque | CDefaultDict | COrderedDict
      | CDictKeys | CDictValues | CDictItems => true
      | _ => false
      end
  | TSequence => match c with CStr | CBytes | CList | CTuple | CDeque => true | _ => false end
  | TMutableSequence => match c with CList | CDeque => true | _ => false end
  | TAbstractSet => match c with CSet | CFrozenSet | CDictKeys | CDictItems => true | _ => false end
  | TMutableSet => cls_eqb c CSet
  | TMappingView => match c with CDictKeys | CDictValues | CDictItems => true | _ => false end
  | TKeysView => cls_eqb c CDictKeys
  | TValuesView => cls_eqb c CDictValues
  | TItemsView => cls_eqb c CDictItems
  | TByteString => cls_eqb c CBytes
  | TIterator => cls_eqb c CListIterator
  | _ => false
  end.
